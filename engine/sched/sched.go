// Package sched is the schedule explorer (engine S): stateless depth-first
// search over the choice sequences of vrt executions with iterative deviation
// bounding, optional happens-before state caching, and replay.
package sched

import (
	"encoding/json"
	"fmt"
	"hash/fnv"
	"sort"
	"strings"
	"time"

	"verif/vrt"
)

// Violation describes one failing execution.
type Violation struct {
	Scenario  string   `json:"scenario"`
	Signature string   `json:"signature"`
	Message   string   `json:"message"`
	Schedule  []int    `json:"schedule"`
	Outcome   string   `json:"outcome"`
	Log       []string `json:"log,omitempty"`
	Blocked   []string `json:"blocked,omitempty"`
	Bound     int      `json:"bound"`
	Cost      int      `json:"cost"`
}

// Scenario is a closed driver: Run is thread 0, Check is the oracle evaluated on
// every complete execution (any outcome except pruned).
type Scenario struct {
	Name      string
	Run       func()
	Check     func(e *vrt.Exec) *Violation // nil => DefaultCheck
	EnvBudget int
	Horizon   int
	// Delay selects delay bounding: every non-default choice costs one deviation
	// (also switching away from a blocked thread and picking another ready select case).
	Delay bool
	// MaxBound caps the deviation bound for this scenario (0 = no cap)
	MaxBound int
	// UnboundedThoroughOnly skips the all-interleavings pass in the quick tier
	UnboundedThoroughOnly bool
	// QuickMaxBound caps the bound in the quick tier only
	QuickMaxBound int
	// NoHB excludes the scenario from the race-detector pass (too many threads for the slower build)
	NoHB bool
	// ReleasePoints: Unlock/RUnlock are scheduling points too (see vrt.Config)
	ReleasePoints bool
	// Tags select scenarios per tier ("quick" scenarios run in both tiers)
	ThoroughOnly bool
}

// PostExec, when set, is evaluated after every complete execution in addition to the scenario's oracle (used by the
// race-detector build: did the detector report something during this execution?).
var PostExec func(e *vrt.Exec) []*Violation

// DefaultCheck flags deadlocks and panics.
func DefaultCheck(name string, e *vrt.Exec) *Violation {
	if len(e.Fails) > 0 {
		f := e.Fails[0]
		return &Violation{Scenario: name, Signature: f.Signature, Message: f.Message}
	}
	switch e.Outcome {
	case vrt.Deadlock:
		return &Violation{Scenario: name, Signature: "deadlock|" + BlockedSig(e), Message: "deadlock: " + strings.Join(e.BlockedSet(), " ")}
	case vrt.Livelock:
		return &Violation{Scenario: name, Signature: "livelock|" + BlockedSig(e), Message: fmt.Sprintf("livelock: %d timer firings in a row were the only thing left to do, the execution never comes to rest: %s", vrt.LivelockEnvStreak, strings.Join(e.BlockedSet(), " "))}
	case vrt.Panicked:
		return &Violation{Scenario: name, Signature: "panic|" + PanicClass(e.PanicVal) + "|" + vrt.TopRepoFrame(e.PanicStack),
			Message: fmt.Sprintf("panic in T%d: %v\n%s", e.PanicTid, e.PanicVal, e.PanicStack)}
	}
	return nil
}

// BlockedSig is the sorted list of blocked operation kinds (without ids).
func BlockedSig(e *vrt.Exec) string {
	seen := map[string]bool{}
	var ks []string
	for _, b := range e.Blocked {
		// T3:mutex.lock@pkg.Func#12 -> mutex.lock@pkg.Func (set, not multiset)
		if i := strings.Index(b, ":"); i >= 0 {
			b = b[i+1:]
		}
		if i := strings.LastIndex(b, "#"); i >= 0 {
			b = b[:i]
		}
		if !seen[b] {
			seen[b] = true
			ks = append(ks, b)
		}
	}
	sort.Strings(ks)
	return strings.Join(ks, ",")
}

// PanicClass strips variable parts (numbers, addresses) of a panic message.
func PanicClass(v any) string {
	s := fmt.Sprint(v)
	if len(s) > 120 {
		s = s[:120]
	}
	var b strings.Builder
	for _, r := range s {
		if r >= '0' && r <= '9' {
			continue
		}
		b.WriteRune(r)
	}
	return b.String()
}

// BoundStats are the statistics of one completed (or cut) bound.
type BoundStats struct {
	Bound      int            `json:"bound"`
	Executions int            `json:"executions"`
	Steps      int64          `json:"steps"`
	Points     int64          `json:"choice_points"`
	Contended  int64          `json:"contended_points"`
	MaxDepth   int            `json:"max_depth"`
	Pruned     int            `json:"pruned"`
	States     int            `json:"states"`
	Outcomes   map[string]int `json:"outcomes"`
	Completed  bool           `json:"completed"`
	Horizon    int            `json:"horizon_hits"`
	WallS      float64        `json:"wall_s"`
}

// Result of exploring one scenario.
type Result struct {
	Scenario    string        `json:"scenario"`
	Bounds      []*BoundStats `json:"bounds"`
	Unbounded   *BoundStats   `json:"unbounded,omitempty"`
	Violations  []*Violation  `json:"violations,omitempty"`
	DistinctObs int           `json:"distinct_observations"`
	Samples     []string      `json:"samples,omitempty"`
	Error       string        `json:"error,omitempty"`
	obs         map[uint64]bool
}

// Options of one exploration.
type Options struct {
	MaxBound   int
	Unbounded  bool // additionally explore all interleavings with state caching
	Cache      bool // use the state cache inside bounded search
	Deadline   time.Time
	MaxViol    int
	Shard      int
	NShards    int
	MaxExecs   int
	StopAtViol bool
}

type explorer struct {
	sc    *Scenario
	opt   Options
	res   *Result
	st    *BoundStats
	bound int
	cache *vrt.U64Map
	cut   bool
	d2    int
	sigs  map[string]bool
}

func runOnce(sc *Scenario, prefix []int, visit func(e *vrt.Exec, key uint64, cost int) bool, trace bool) *vrt.Exec {
	cfg := vrt.Config{Prefix: prefix, Horizon: sc.Horizon, EnvBudget: sc.EnvBudget, Visit: visit, Trace: trace}
	if sc.Delay {
		cfg.BlockSwitchCost, cfg.SelectCost = 1, 1
	}
	cfg.ReleasePoints = sc.ReleasePoints
	return vrt.Run(cfg, sc.Run)
}

func obsHash(e *vrt.Exec) uint64 {
	h := fnv.New64a()
	fmt.Fprint(h, e.Outcome)
	for _, ev := range e.Log {
		fmt.Fprint(h, ev.Tid, ev.Kind, ev.Args, ";")
	}
	return h.Sum64()
}

func (x *explorer) check(e *vrt.Exec) {
	st := x.st
	st.Executions++
	st.Steps += int64(e.Steps)
	st.Points += int64(len(e.Points))
	st.Contended += int64(e.Contended)
	if len(e.Points) > st.MaxDepth {
		st.MaxDepth = len(e.Points)
	}
	st.Outcomes[e.Outcome.String()]++
	switch e.Outcome {
	case vrt.Pruned:
		st.Pruned++
		return
	case vrt.Horizon:
		st.Horizon++
	case vrt.Diverged:
		x.res.Error = "replay divergence: " + e.DivergeMsg
		x.cut = true
		return
	}
	oh := obsHash(e)
	if !x.res.obs[oh] {
		x.res.obs[oh] = true
		if len(x.res.Samples) < 3 {
			x.res.Samples = append(x.res.Samples, fmt.Sprintf("schedule=%v outcome=%s log=%s", choices(e), e.Outcome, logStrings(e, 12)))
		}
	}
	var v *Violation
	if x.sc.Check != nil {
		v = x.sc.Check(e)
	} else {
		v = DefaultCheck(x.sc.Name, e)
	}
	var vs []*Violation
	if v != nil {
		vs = append(vs, v)
	}
	if PostExec != nil {
		vs = append(vs, PostExec(e)...)
	}
	for _, v := range vs {
		v.Scenario = x.sc.Name
		if x.sigs[v.Signature] {
			continue
		}
		x.sigs[v.Signature] = true
		v.Schedule = choices(e)
		v.Outcome = e.Outcome.String()
		v.Log = strings.Split(logStrings(e, 200), " | ")
		v.Blocked = e.BlockedSet()
		v.Bound = x.bound
		v.Cost = e.Cost()
		x.res.Violations = append(x.res.Violations, v)
		if x.opt.StopAtViol || (x.opt.MaxViol > 0 && len(x.res.Violations) >= x.opt.MaxViol) {
			x.cut = true
		}
	}
}

func choices(e *vrt.Exec) []int {
	out := make([]int, len(e.Points))
	for i, p := range e.Points {
		out[i] = p.Chosen
	}
	// trailing zeros are implied
	n := len(out)
	for n > 0 && out[n-1] == 0 {
		n--
	}
	return out[:n]
}

func logStrings(e *vrt.Exec, max int) string {
	var parts []string
	for i, ev := range e.Log {
		if i >= max {
			parts = append(parts, "...")
			break
		}
		parts = append(parts, ev.String())
	}
	return strings.Join(parts, " | ")
}

func (x *explorer) visit(e *vrt.Exec, key uint64, cost int) bool {
	if c, ok := x.cache.Get(key); ok && int(c) <= cost {
		return true
	}
	x.cache.Put(key, uint64(cost))
	return false
}

func (x *explorer) explore(prefix []int, depth int) {
	if x.cut {
		return
	}
	if !x.opt.Deadline.IsZero() && time.Now().After(x.opt.Deadline) {
		x.cut = true
		return
	}
	if x.opt.MaxExecs > 0 && x.st.Executions >= x.opt.MaxExecs {
		x.cut = true
		return
	}
	var visit func(e *vrt.Exec, key uint64, cost int) bool
	if x.cache != nil {
		visit = x.visit
	}
	e := runOnce(x.sc, prefix, visit, false)
	x.check(e)
	if x.cut {
		return
	}
	pts := e.Points
	cost := 0
	for i := 0; i < len(pts); i++ {
		p := pts[i]
		if i >= len(prefix) {
			for alt := 1; alt < p.N; alt++ {
				c := cost + int(p.Costs[alt])
				if x.bound >= 0 && c > x.bound {
					continue
				}
				if depth == 1 && x.opt.NShards > 1 {
					x.d2++
					if x.d2%x.opt.NShards != x.opt.Shard {
						continue
					}
				}
				np := make([]int, i+1)
				for j := 0; j < i; j++ {
					np[j] = pts[j].Chosen
				}
				np[i] = alt
				x.explore(np, depth+1)
				if x.cut {
					return
				}
			}
		}
		cost += int(p.Costs[p.Chosen])
	}
}

// Explore runs the scenario under iterative deviation bounding.
func Explore(sc *Scenario, opt Options) *Result {
	res := &Result{Scenario: sc.Name, obs: map[uint64]bool{}}
	x := &explorer{sc: sc, opt: opt, res: res, sigs: map[string]bool{}}
	maxB := opt.MaxBound
	if sc.MaxBound > 0 && sc.MaxBound < maxB {
		maxB = sc.MaxBound
	}
	for b := 0; b <= maxB; b++ {
		st := &BoundStats{Bound: b, Outcomes: map[string]int{}}
		x.st, x.bound, x.d2 = st, b, 0
		x.cache = nil
		if opt.Cache {
			x.cache = &vrt.U64Map{}
		}
		t0 := time.Now()
		x.explore(nil, 0)
		st.WallS = time.Since(t0).Seconds()
		st.Completed = !x.cut
		st.States = x.cache.Len()
		res.Bounds = append(res.Bounds, st)
		if x.cut {
			break
		}
	}
	if opt.Unbounded && !x.cut {
		st := &BoundStats{Bound: -1, Outcomes: map[string]int{}}
		x.st, x.bound, x.d2 = st, -1, 0
		x.cache = &vrt.U64Map{}
		t0 := time.Now()
		x.explore(nil, 0)
		st.WallS = time.Since(t0).Seconds()
		st.Completed = !x.cut
		st.States = x.cache.Len()
		res.Unbounded = st
	}
	res.DistinctObs = len(res.obs)
	return res
}

// Replay runs one schedule twice and checks that both runs agree.
func Replay(sc *Scenario, schedule []int) (*Violation, string, error) {
	e1 := runOnce(sc, schedule, nil, true)
	var pv *Violation
	if PostExec != nil {
		if l := PostExec(e1); len(l) > 0 {
			pv = l[0]
		}
	}
	e2 := runOnce(sc, schedule, nil, true)
	if PostExec != nil && pv == nil {
		// the detector keeps a bounded, randomly evicted access history per memory cell: whether one run of the schedule
		// trips a given pair is not certain, so the schedule is repeated a few times (a pair is reported once per process)
		if l := PostExec(e2); len(l) > 0 {
			pv = l[0]
		}
		for i := 0; i < 40 && pv == nil; i++ {
			ex := runOnce(sc, schedule, nil, false)
			if l := PostExec(ex); len(l) > 0 {
				pv = l[0]
			}
		}
	}
	if e1.Outcome == vrt.Diverged {
		return nil, "", fmt.Errorf("replay diverged: %s", e1.DivergeMsg)
	}
	if obsHash(e1) != obsHash(e2) || strings.Join(e1.Trace, ";") != strings.Join(e2.Trace, ";") {
		return nil, "", fmt.Errorf("replay is not deterministic")
	}
	var v *Violation
	if sc.Check != nil {
		v = sc.Check(e1)
	} else {
		v = DefaultCheck(sc.Name, e1)
	}
	if v == nil {
		v = pv
	}
	tr := strings.Join(e1.Trace, "\n") + "\n-- log --\n" + strings.ReplaceAll(logStrings(e1, 1000), " | ", "\n")
	return v, tr, nil
}

// JSON helper.
func JSON(v any) string {
	b, _ := json.Marshal(v)
	return string(b)
}
