// Package hist is the history explorer (engine H): explicit-state search over
// operation sequences applied to the real object and to a reference model.
// Real objects cannot be cloned, so a successor state is produced by replaying the
// path on a fresh instance plus one operation.  With a canonical state key the
// search merges states (visited set) and reaches a fixpoint; without it the
// search is bounded by depth.
package hist

import (
	"encoding/json"
	"fmt"
	"runtime/debug"
	"strings"
	"time"

	"verif/engine/cli"
	"verif/vrt"
)

// Instance is one fresh real object together with its reference model.
type Instance interface {
	// Enabled reports whether operation op of the alphabet is offered in the current state.
	Enabled(op int) bool
	// Apply executes op on the real object and on the model and returns "" if every
	// observation agrees, otherwise "class: details".
	Apply(op int) string
	// Key is a canonical key of the current state ("" = do not merge).
	Key() string
}

// Replayer is optionally implemented by instances that can re-apply an already
// validated operation without comparing observations (faster path replays).
type Replayer interface {
	Replay(op int)
}

// fastRun replays an already validated path.
func fastRun(sys *System, ops []int) (inst Instance, bad string) {
	inst = sys.New()
	defer func() {
		if r := recover(); r != nil {
			bad = fmt.Sprintf("nondeterminism: replaying a validated history panicked: %v", r)
		}
	}()
	rp, fast := inst.(Replayer)
	for _, op := range ops {
		if fast {
			rp.Replay(op)
		} else if m := inst.Apply(op); m != "" {
			return inst, "nondeterminism: replaying the same history gave " + m
		}
	}
	return inst, ""
}

// System describes one configuration to explore.
type System struct {
	Name     string
	Alphabet []string
	New      func() Instance
	MaxDepth int  // depth bound (with merging: safety bound)
	Merge    bool // use Key() to merge states
	// Shallow: a merged system is additionally searched WITHOUT merging (every history, so no assumption about the
	// key is needed) to the largest depth whose history count fits this transition budget; 0 = default
	// (100k quick, 3M thorough), negative = off.
	Shallow int64
}

// Violation of a system.
type Violation struct {
	System  string   `json:"system"`
	Class   string   `json:"class"`
	Detail  string   `json:"detail"`
	History []string `json:"history"`
	Ops     []int    `json:"ops"`
}

// Result of one exploration.
type Result struct {
	States      int64
	Transitions int64
	Histories   int64
	MaxDepth    int
	Fixpoint    bool
	Complete    bool
	Violations  []*Violation
	Samples     []string
	classes     map[string]bool
}

// applySafe applies one op and converts panics into mismatches.
func applySafe(inst Instance, op int) (res string) {
	defer func() {
		if r := recover(); r != nil {
			if wb, ok := r.(vrt.ErrWouldBlock); ok {
				res = "sequential-deadlock|" + wb.What + ": the operation blocks forever on " + wb.What
				return
			}
			st := string(debug.Stack())
			res = fmt.Sprintf("panic|%s|%s: %v", panicClass(r), vrt.TopRepoFrame(st), r)
		}
	}()
	return inst.Apply(op)
}

func panicClass(v any) string {
	s := fmt.Sprint(v)
	if len(s) > 80 {
		s = s[:80]
	}
	var b strings.Builder
	for _, r := range s {
		if r >= '0' && r <= '9' {
			continue
		}
		b.WriteRune(r)
	}
	return b.String()
}

// Run replays a history on a fresh instance; returns the first mismatch and its position.
func Run(sys *System, ops []int) (string, int, Instance) {
	inst := sys.New()
	for i, op := range ops {
		if !inst.Enabled(op) {
			return "disabled", i, inst
		}
		if m := applySafe(inst, op); m != "" {
			return m, i, inst
		}
	}
	return "", -1, inst
}

func classOf(m string) string {
	if i := strings.Index(m, ": "); i >= 0 {
		return m[:i]
	}
	return m
}

// shrink removes operations while the same mismatch class is still produced at the end.
func shrink(sys *System, ops []int, class string) []int {
	cur := append([]int{}, ops...)
	for changed := true; changed; {
		changed = false
		for i := 0; i < len(cur)-1; i++ {
			cand := append(append([]int{}, cur[:i]...), cur[i+1:]...)
			m, pos, _ := Run(sys, cand)
			if m != "" && m != "disabled" && classOf(m) == class && pos == len(cand)-1 {
				cur = cand
				changed = true
				break
			}
		}
	}
	return cur
}

func names(sys *System, ops []int) []string {
	out := make([]string, len(ops))
	for i, o := range ops {
		out[i] = sys.Alphabet[o]
	}
	return out
}

// Explore runs the search.  shard/nshards split the first-level operations.
func Explore(sys *System, deadline time.Time, shard, nshards int) *Result {
	res := &Result{classes: map[string]bool{}, Complete: true, Fixpoint: sys.Merge}
	seen := map[string]bool{}
	var path []int
	var dfs func(inst Instance, depth int)
	record := func(m string, ops []int) {
		class := classOf(m)
		if res.classes[class] {
			return
		}
		res.classes[class] = true
		sh := shrink(sys, ops, class)
		m2, _, _ := Run(sys, sh)
		if m2 == "" {
			m2 = m
			sh = ops
		}
		res.Violations = append(res.Violations, &Violation{System: sys.Name, Class: class, Detail: m2, History: names(sys, sh), Ops: sh})
	}
	expired := false
	dfs = func(inst Instance, depth int) {
		if depth > res.MaxDepth {
			res.MaxDepth = depth
		}
		if depth >= sys.MaxDepth {
			res.Histories++
			if sys.Merge {
				res.Fixpoint = false // the safety bound cut the search
			}
			if len(res.Samples) < 3 {
				res.Samples = append(res.Samples, strings.Join(names(sys, path), " ; "))
			}
			return
		}
		first := true
		nchild := 0
		for op := range sys.Alphabet {
			if depth == 0 && nshards > 1 && op%nshards != shard {
				continue
			}
			if expired || (res.Transitions&0x3ff == 0 && time.Now().After(deadline)) {
				expired = true
				res.Complete = false
				return
			}
			cur := inst
			if !first {
				// replay the path on a fresh instance
				var m string
				cur, m = fastRun(sys, path)
				if m != "" {
					// nondeterministic system: same path, different result
					record(m, append([]int{}, path...))
					return
				}
			}
			if !cur.Enabled(op) {
				if first {
					// keep the instance for the next candidate
					continue
				}
				continue
			}
			first = false
			nchild++
			res.Transitions++
			path = append(path, op)
			m := applySafe(cur, op)
			if m != "" {
				record(m, append([]int{}, path...))
				path = path[:len(path)-1]
				continue
			}
			if sys.Merge {
				k := cur.Key()
				if seen[k] {
					path = path[:len(path)-1]
					continue
				}
				seen[k] = true
				res.States++
			} else {
				res.States++
			}
			dfs(cur, depth+1)
			path = path[:len(path)-1]
		}
		if nchild == 0 {
			res.Histories++
		}
	}
	inst := sys.New()
	if sys.Merge {
		// breadth-first search over merged states: all states within MaxDepth steps, or the fixpoint
		seen[inst.Key()] = true
		res.States++
		frontier := [][]int{{}}
		for depth := 0; depth < sys.MaxDepth && len(frontier) > 0; depth++ {
			var next [][]int
			for _, p := range frontier {
				var cur Instance
				for op := range sys.Alphabet {
					if depth == 0 && nshards > 1 && op%nshards != shard {
						continue
					}
					if res.Transitions&0xff == 0 && time.Now().After(deadline) {
						res.Complete, res.Fixpoint = false, false
						return res
					}
					if cur == nil {
						var m string
						cur, m = fastRun(sys, p)
						if m != "" {
							record(m, append([]int{}, p...))
							break
						}
					}
					if !cur.Enabled(op) {
						continue
					}
					res.Transitions++
					np := append(append(make([]int, 0, len(p)+1), p...), op)
					m := applySafe(cur, op)
					if m != "" {
						record(m, np)
						cur = nil
						continue
					}
					k := cur.Key()
					cur = nil
					if seen[k] {
						continue
					}
					seen[k] = true
					res.States++
					next = append(next, np)
					if depth+1 > res.MaxDepth {
						res.MaxDepth = depth + 1
					}
				}
			}
			if len(next) == 0 {
				res.Histories += int64(len(frontier))
			}
			if len(res.Samples) < 3 && len(next) > 0 {
				res.Samples = append(res.Samples, strings.Join(names(sys, next[len(next)/2]), " ; "))
			}
			frontier = next
		}
		res.Histories += int64(len(frontier))
		res.Fixpoint = len(frontier) == 0
		return res
	}
	res.States++
	dfs(inst, 0)
	if !res.Complete {
		res.Fixpoint = false
	}
	return res
}

// Part wraps systems into a cli.Part.  systems is evaluated in the worker.
func Part(name string, systems func(c *cli.Ctx) []*System) *cli.Part {
	return &cli.Part{
		Name: name,
		Run: func(c *cli.Ctx) *cli.PartResult {
			pr := &cli.PartResult{Engine: "H", Exhaustive: true}
			var detail []map[string]any
			for _, sys := range systems(c) {
				t0 := time.Now()
				r := Explore(sys, c.Deadline, c.Shard, c.NShards)
				pr.States += r.States
				pr.Transitions += r.Transitions
				pr.Traces += r.Histories
				pr.Evaluations += r.Transitions
				pr.Distinct += r.States
				if !r.Complete {
					pr.Exhaustive = false
				}
				for _, s := range r.Samples {
					if len(pr.Samples) < 4 {
						pr.Samples = append(pr.Samples, sys.Name+": "+s)
					}
				}
				detail = append(detail, map[string]any{"system": sys.Name, "states": r.States, "transitions": r.Transitions, "histories": r.Histories,
					"max_depth": r.MaxDepth, "merge": sys.Merge, "fixpoint": r.Fixpoint, "complete": r.Complete, "alphabet": len(sys.Alphabet), "wall_s": time.Since(t0).Seconds()})
				viols := r.Violations
				if sys.Merge && sys.Shallow >= 0 && len(sys.Alphabet) > 1 {
					budget := sys.Shallow
					if budget == 0 {
						budget = 100_000
						if c.Thorough() {
							budget = 3_000_000
						}
					}
					d, n := 0, int64(1)
					for n*int64(len(sys.Alphabet)) <= budget && d < sys.MaxDepth {
						n *= int64(len(sys.Alphabet))
						d++
					}
					if d >= 2 {
						t1 := time.Now()
						flat := *sys
						flat.Merge, flat.MaxDepth = false, d
						r2 := Explore(&flat, c.Deadline, c.Shard, c.NShards)
						pr.States += r2.States
						pr.Transitions += r2.Transitions
						pr.Traces += r2.Histories
						pr.Evaluations += r2.Transitions
						if !r2.Complete {
							pr.Exhaustive = false
						}
						detail = append(detail, map[string]any{"system": sys.Name + " (every history, unmerged)", "states": r2.States, "transitions": r2.Transitions, "histories": r2.Histories,
							"max_depth": r2.MaxDepth, "merge": false, "complete": r2.Complete, "alphabet": len(sys.Alphabet), "wall_s": time.Since(t1).Seconds()})
						have := map[string]bool{}
						for _, v := range viols {
							have[v.Class] = true
						}
						for _, v := range r2.Violations {
							if !have[v.Class] {
								viols = append(viols, v)
							}
						}
					}
				}
				for _, v := range viols {
					raw, _ := json.Marshal(v)
					pr.Violations = append(pr.Violations, &cli.Violation{Part: name, Engine: "H", Signature: sys.Name + "|" + v.Class,
						Message: fmt.Sprintf("%s\n  history: %s", v.Detail, strings.Join(v.History, " ; ")), Replay: raw})
				}
			}
			pr.Detail = detail
			return pr
		},
		Replay: func(raw json.RawMessage) (string, string, error) {
			var v Violation
			if err := json.Unmarshal(raw, &v); err != nil {
				return "", "", err
			}
			for _, sys := range systems(&cli.Ctx{Tier: "thorough"}) {
				if sys.Name == v.System {
					m, pos, _ := Run(sys, v.Ops)
					detail := fmt.Sprintf("history: %s\nresult: %q at step %d", strings.Join(names(sys, v.Ops), " ; "), m, pos)
					if m != "" {
						return sys.Name + "|" + classOf(m) + ": " + m, detail, nil
					}
					return "", detail, nil
				}
			}
			return "", "", fmt.Errorf("unknown system %s", v.System)
		},
	}
}
