// Package cli is the common driver of every property binary: tiers, worker
// sub-processes, evidence, replay artefacts and the known-findings file.
package cli

import (
	"crypto/sha1"
	"encoding/hex"
	"encoding/json"
	"flag"
	"fmt"
	"os"
	"os/exec"
	"path/filepath"
	"regexp"
	"runtime"
	"sort"
	"strconv"
	"strings"
	"sync"
	"time"

	"verif/engine/sched"
	"verif/vrace"
	"verif/vrt"
)

// Violation is the engine-independent form of a failing case.
type Violation struct {
	Part      string          `json:"part"`
	Engine    string          `json:"engine"`
	Signature string          `json:"signature"`
	Message   string          `json:"message"`
	Replay    json.RawMessage `json:"replay"` // engine specific: schedule / op list / input
}

// PartResult is what one work item (scenario, history system, input space) reports.
type PartResult struct {
	Name        string       `json:"name"`
	Engine      string       `json:"engine"`
	States      int64        `json:"states"`
	Transitions int64        `json:"transitions"`
	Traces      int64        `json:"traces"`
	Evaluations int64        `json:"evaluations"`
	Distinct    int64        `json:"distinct_nontrivial"`
	Exhaustive  bool         `json:"exhaustive"`
	Samples     []any        `json:"samples,omitempty"`
	Violations  []*Violation `json:"violations,omitempty"`
	Detail      any          `json:"detail,omitempty"`
	Error       string       `json:"error,omitempty"`
	WallS       float64      `json:"wall_s"`
	Notes       []string     `json:"notes,omitempty"`
}

// Ctx is handed to a custom part.
type Ctx struct {
	Tier     string
	Seed     int64
	Deadline time.Time
	Shard    int
	NShards  int
}

// Thorough reports whether the thorough tier runs.
func (c *Ctx) Thorough() bool { return c.Tier == "thorough" }

// Expired reports whether the part's internal deadline has passed.
func (c *Ctx) Expired() bool { return time.Now().After(c.Deadline) }

// Part is a custom work item (engines H and I).
type Part struct {
	Name         string
	Run          func(c *Ctx) *PartResult
	Replay       func(raw json.RawMessage) (violation string, detail string, err error)
	ThoroughOnly bool
	Procs        int // GOMAXPROCS of the worker (default 1)
	Shards       int // run as this many worker processes (ctx.Shard/NShards)
	ShardsQuick  int
}

// Property is the description of one property binary.
type Property struct {
	ID          string
	Level       string // evidence level
	Scenarios   []*sched.Scenario
	Parts       []*Part
	Assumptions []string
	Rule        string
	// bounds per tier for engine S
	QuickBound, ThoroughBound int
	QuickUnbounded            bool
	ThoroughUnbounded         bool
	Cache                     bool
	Delay                     bool // delay bounding for all scenarios
	ReleasePoints             bool // release operations are scheduling points in all scenarios
	QuickSecs, ThoroughSecs   int  // per work item deadline
	NotReached                []string
	// RaceHB additionally explores every scenario in the race-detector build ("<binary>hb"): the same schedules,
	// judged by the detector's happens-before analysis of the real memory accesses (work items "hb:<scenario>").
	RaceHB *RaceHB
}

// RaceHB configures the happens-before race pass over explored schedules.
type RaceHB struct {
	QuickBound, ThoroughBound int
	ThoroughUnbounded         bool
}

type finding struct {
	Property  string `json:"property"`
	Signature string `json:"signature"` // exact, or regex when Regex is true
	Regex     bool   `json:"regex,omitempty"`
	Status    string `json:"status"` // "known" or "fixed"
	What      string `json:"what"`
	Commit    string `json:"commit,omitempty"`
}

var verifDir = func() string {
	if d := os.Getenv("VERIF_DIR"); d != "" {
		return d
	}
	return "/verif"
}()

func loadFindings(id string) []finding {
	b, err := os.ReadFile(filepath.Join(verifDir, "known_findings.json"))
	if err != nil {
		return nil
	}
	var all struct {
		Findings []finding `json:"findings"`
	}
	if err := json.Unmarshal(b, &all); err != nil {
		fmt.Fprintln(os.Stderr, "known_findings.json:", err)
		os.Exit(2)
	}
	var out []finding
	for _, f := range all.Findings {
		if f.Property == id && f.Status == "known" {
			out = append(out, f)
		}
	}
	return out
}

func matchFinding(fs []finding, sig string) *finding {
	for i := range fs {
		f := &fs[i]
		if f.Regex {
			if ok, _ := regexp.MatchString("^(?:"+f.Signature+")$", sig); ok {
				return f
			}
		} else if f.Signature == sig {
			return f
		}
	}
	return nil
}

type workItem struct {
	name   string
	hb     bool
	sc     *sched.Scenario
	part   *Part
	shard  int
	nshard int
}

// Main is the entry point of a property binary.
func Main(p *Property) {
	tier := flag.String("tier", envOr("VERIF_TIER", "quick"), "quick|thorough")
	worker := flag.String("worker", "", "internal: run one work item")
	shard := flag.String("shard", "0/1", "internal: shard i/n")
	replay := flag.String("replay", "", "replay a violation file")
	only := flag.String("only", "", "run only work items whose name contains this")
	list := flag.Bool("list", false, "list work items")
	jobs := flag.Int("j", runtime.NumCPU(), "parallel workers")
	secs := flag.Int("secs", 0, "override per-item deadline (seconds)")
	bound := flag.Int("bound", -1, "override deviation bound")
	flag.Parse()
	seed, _ := strconv.ParseInt(envOr("VERIF_SEED", "0"), 10, 64)
	if *tier != "quick" && *tier != "thorough" {
		*tier = "quick"
	}
	if p.QuickSecs == 0 {
		p.QuickSecs = 40
	}
	if p.ThoroughSecs == 0 {
		p.ThoroughSecs = 600
	}
	if p.QuickBound == 0 {
		p.QuickBound = 2
	}
	if p.ThoroughBound == 0 {
		p.ThoroughBound = 3
	}
	dl := p.QuickSecs
	b := p.QuickBound
	unb := p.QuickUnbounded
	if *tier == "thorough" {
		dl, b, unb = p.ThoroughSecs, p.ThoroughBound, p.ThoroughUnbounded
	}
	if *secs > 0 {
		dl = *secs
	}
	if *bound >= 0 {
		b = *bound
	}

	if *replay != "" {
		os.Exit(doReplay(p, *replay))
	}

	var items []workItem
	for _, sc := range p.Scenarios {
		if sc.ThoroughOnly && *tier != "thorough" {
			continue
		}
		items = append(items, workItem{name: sc.Name, sc: sc, nshard: 1})
	}
	if p.RaceHB != nil {
		for _, sc := range p.Scenarios {
			if (sc.ThoroughOnly && *tier != "thorough") || sc.NoHB {
				continue
			}
			items = append(items, workItem{name: "hb:" + sc.Name, hb: true, sc: sc, nshard: 1})
		}
	}
	for _, pt := range p.Parts {
		if pt.ThoroughOnly && *tier != "thorough" {
			continue
		}
		n := pt.Shards
		if *tier == "quick" && pt.ShardsQuick > 0 {
			n = pt.ShardsQuick
		}
		if n < 1 {
			n = 1
		}
		for i := 0; i < n; i++ {
			items = append(items, workItem{name: pt.Name, part: pt, shard: i, nshard: n})
		}
	}
	if *list {
		for _, it := range items {
			fmt.Println(it.name)
		}
		return
	}

	if *worker != "" {
		var si, sn int
		fmt.Sscanf(*shard, "%d/%d", &si, &sn)
		for _, it := range items {
			if it.name == *worker && it.shard == si {
				res := runItem(p, it, *tier, seed, dl, b, unb)
				out, _ := json.Marshal(res)
				os.Stdout.Write(out)
				os.Stdout.Write([]byte("\n"))
				return
			}
		}
		fmt.Fprintln(os.Stderr, "no such work item:", *worker)
		os.Exit(2)
	}

	t0 := time.Now()
	if *only != "" {
		var f []workItem
		for _, it := range items {
			if strings.Contains(it.name, *only) {
				f = append(f, it)
			}
		}
		items = f
	}
	results := make([]*PartResult, len(items))
	sem := make(chan struct{}, *jobs)
	var wg sync.WaitGroup
	self, _ := os.Executable()
	for i, it := range items {
		wg.Add(1)
		sem <- struct{}{}
		go func(i int, it workItem) {
			defer wg.Done()
			defer func() { <-sem }()
			args := []string{"--worker", it.name, "--shard", fmt.Sprintf("%d/%d", it.shard, it.nshard), "--tier", *tier, "--secs", strconv.Itoa(dl), "--bound", strconv.Itoa(b)}
			bin := self
			var raceDir string
			if it.hb {
				bin = self + "hb"
				raceDir, _ = os.MkdirTemp("", "verif-racelog")
				defer os.RemoveAll(raceDir)
			}
			cmd := exec.Command(bin, args...)
			procs := 1
			if it.part != nil && it.part.Procs > 0 {
				procs = it.part.Procs
			}
			cmd.Env = append(os.Environ(), "GOMAXPROCS="+strconv.Itoa(procs), "VERIF_SEED="+strconv.FormatInt(seed, 10))
			if it.hb {
				cmd.Env = append(cmd.Env, "GORACE=log_path="+filepath.Join(raceDir, "race")+" exitcode=0 halt_on_error=0", "VERIF_RACELOG="+filepath.Join(raceDir, "race"))
			}
			var stderr strings.Builder
			cmd.Stderr = &stderr
			done := make(chan struct{})
			var out []byte
			var err error
			go func() { out, err = cmd.Output(); close(done) }()
			select {
			case <-done:
			case <-time.After(time.Duration(dl)*time.Second + 120*time.Second):
				_ = cmd.Process.Kill()
				<-done
				err = fmt.Errorf("worker exceeded its hard deadline and was killed")
			}
			res := &PartResult{Name: it.name}
			if err != nil {
				if fr := crashFrame(stderr.String()); fr != "" {
					// the worker process died inside the code under test (an uncontrolled goroutine panicked, or a runtime
					// fatal error such as concurrent map access): that is a result, not an infrastructure problem
					raw, _ := json.Marshal(map[string]any{"stderr": tail(stderr.String(), 6000)})
					res.Engine = "crash"
					res.Violations = append(res.Violations, &Violation{Part: it.name, Engine: "crash", Signature: it.name + "|crash|" + fr,
						Message: "the worker process crashed inside hive.go:\n" + head(stderr.String(), 1500), Replay: raw})
				} else {
					res.Error = fmt.Sprintf("worker failed: %v; stderr: %s", err, tail(stderr.String(), 2000))
				}
			} else {
				lines := strings.Split(strings.TrimSpace(string(out)), "\n")
				if e := json.Unmarshal([]byte(lines[len(lines)-1]), res); e != nil {
					res.Error = "bad worker output: " + e.Error() + ": " + tail(string(out), 500)
				}
			}
			results[i] = res
		}(i, it)
	}
	wg.Wait()
	os.Exit(report(p, *tier, seed, results, time.Since(t0).Seconds()))
}

// crashFrame returns the first hive.go function of a Go crash dump ("" if stderr is not one).
func crashFrame(stderr string) string {
	if !strings.Contains(stderr, "panic: ") && !strings.Contains(stderr, "fatal error: ") {
		return ""
	}
	for _, l := range strings.Split(stderr, "\n") {
		l = strings.TrimSpace(l)
		if strings.HasPrefix(l, "github.com/iotaledger/hive.go/") && strings.Contains(l, "(") {
			f := strings.TrimPrefix(l, "github.com/iotaledger/hive.go/")
			if i := strings.LastIndex(f, "("); i > 0 {
				f = f[:i]
			}
			return f
		}
	}
	return ""
}

func head(s string, n int) string {
	if len(s) > n {
		return s[:n] + "..."
	}
	return s
}

func tail(s string, n int) string {
	if len(s) > n {
		return "..." + s[len(s)-n:]
	}
	return s
}

func envOr(k, d string) string {
	if v := os.Getenv(k); v != "" {
		return v
	}
	return d
}

func runItem(p *Property, it workItem, tier string, seed int64, secs, bound int, unbounded bool) *PartResult {
	t0 := time.Now()
	deadline := t0.Add(time.Duration(secs) * time.Second)
	if it.part != nil {
		res := it.part.Run(&Ctx{Tier: tier, Seed: seed, Deadline: deadline, Shard: it.shard, NShards: it.nshard})
		res.Name = it.name
		res.WallS = time.Since(t0).Seconds()
		return res
	}
	if p.Delay {
		it.sc.Delay = true
	}
	if p.ReleasePoints {
		it.sc.ReleasePoints = true
	}
	if tier == "quick" && it.sc.QuickMaxBound > 0 && (it.sc.MaxBound == 0 || it.sc.QuickMaxBound < it.sc.MaxBound) {
		it.sc.MaxBound = it.sc.QuickMaxBound
	}
	if tier == "quick" && it.sc.UnboundedThoroughOnly {
		unbounded = false
	}
	if it.hb {
		if !vrace.Enabled {
			return &PartResult{Name: it.name, Engine: "S+HB", Error: "hb work items need the race-detector build of this binary"}
		}
		bound = p.RaceHB.QuickBound
		unbounded = false
		if tier == "thorough" {
			bound, unbounded = p.RaceHB.ThoroughBound, p.RaceHB.ThoroughUnbounded
		}
		it.sc.Check = func(*vrt.Exec) *sched.Violation { return nil } // functional oracles are judged by the plain pass
		sched.PostExec = raceChecker(os.Getenv("VERIF_RACELOG"))
	}
	r := sched.Explore(it.sc, sched.Options{MaxBound: bound, Unbounded: unbounded, Cache: p.Cache, Deadline: deadline, MaxViol: 8})
	res := &PartResult{Name: it.name, Engine: "S", Detail: r, Error: r.Error}
	if it.hb {
		res.Engine = "S+HB"
		res.Notes = []string{"race-detector build: the scheduler's hand-offs are hidden from the detector and the shims report the happens-before edges of the modelled primitives, so every explored schedule is judged for unsynchronised conflicting accesses"}
	}
	ex := true
	for _, bs := range r.Bounds {
		res.Traces += int64(bs.Executions)
		res.Transitions += bs.Steps
		if bs.States > 0 {
			res.States += int64(bs.States)
		} else {
			res.States += bs.Points
		}
		if !bs.Completed {
			ex = false
		}
	}
	if r.Unbounded != nil {
		res.Traces += int64(r.Unbounded.Executions)
		res.Transitions += r.Unbounded.Steps
		res.States += int64(r.Unbounded.States)
		if !r.Unbounded.Completed {
			ex = false
		}
	}
	res.Exhaustive = ex
	res.Evaluations = res.Traces
	res.Distinct = int64(r.DistinctObs)
	for _, s := range r.Samples {
		res.Samples = append(res.Samples, s)
	}
	for _, v := range r.Violations {
		raw, _ := json.Marshal(v)
		sig := it.name + "|" + v.Signature
		if it.hb {
			sig = v.Signature // the same race is one finding, whichever scenario shows it
		}
		res.Violations = append(res.Violations, &Violation{Part: it.name, Engine: res.Engine, Signature: sig, Message: v.Message, Replay: raw})
	}
	res.WallS = time.Since(t0).Seconds()
	return res
}

// raceChecker returns the per-execution oracle of the race-detector build: the detector appends its reports to
// <base>.<pid>; whatever appeared since the previous execution was caused by this one.
func raceChecker(base string) func(e *vrt.Exec) []*sched.Violation {
	path := fmt.Sprintf("%s.%d", base, os.Getpid())
	var off int64
	return func(e *vrt.Exec) []*sched.Violation {
		fi, err := os.Stat(path)
		if err != nil || fi.Size() <= off {
			return nil
		}
		b, err := os.ReadFile(path)
		if err != nil || int64(len(b)) <= off {
			return nil
		}
		text := string(b[off:])
		off = int64(len(b))
		var out []*sched.Violation
		for _, rep := range strings.Split(text, "==================") {
			if !strings.Contains(rep, "DATA RACE") {
				continue
			}
			frames, harnessOnly := raceFrames(rep)
			if harnessOnly {
				continue
			}
			out = append(out, &sched.Violation{Signature: "data-race|" + strings.Join(frames, "|"), Message: "the race detector reported unsynchronised conflicting accesses in this schedule:\n" + tail(strings.TrimSpace(rep), 2500)})
		}
		return out
	}
}

// raceFrames extracts, for each of the two accesses of a report, the innermost function of hive.go on its stack.
// harnessOnly reports that both accesses were made by the harness itself (innermost non-runtime frame in package
// main or verif/...): the runtime's built-in maps, append and copy report their accesses even from the
// uninstrumented harness, whose own bookkeeping is shared between controlled threads on purpose.
func raceFrames(rep string) (frames []string, harnessOnly bool) {
	lines := strings.Split(rep, "\n")
	inAccess, needInner := false, false
	accesses, harness := 0, 0
	for _, l := range lines {
		tl := strings.TrimSpace(l)
		switch {
		case strings.HasPrefix(tl, "Read at"), strings.HasPrefix(tl, "Write at"), strings.HasPrefix(tl, "Previous read at"), strings.HasPrefix(tl, "Previous write at"),
			strings.HasPrefix(tl, "Atomic"), strings.HasPrefix(tl, "Previous atomic"):
			inAccess, needInner = true, true
			accesses++
		case tl == "" || strings.HasPrefix(tl, "Goroutine"):
			if inAccess && needInner {
				harness++ // only runtime frames: the caller is uninstrumented code (instrumented callers leave a frame)
				needInner = false
			}
			inAccess = false
		case inAccess && strings.HasSuffix(tl, ")") && !strings.HasPrefix(tl, "/"):
			if needInner && !strings.HasPrefix(tl, "runtime.") && !strings.HasPrefix(tl, "internal/") {
				needInner = false
				if strings.HasPrefix(tl, "main.") || strings.HasPrefix(tl, "verif/") {
					harness++
				}
			}
			if strings.Contains(tl, "iotaledger/hive.go/") {
				f := tl[strings.Index(tl, "iotaledger/hive.go/")+len("iotaledger/hive.go/"):]
				if i := strings.LastIndex(f, "("); i > 0 {
					f = f[:i]
				}
				frames = append(frames, f)
				inAccess = false
			}
		}
	}
	sort.Strings(frames)
	return frames, accesses >= 2 && harness == accesses
}

func report(p *Property, tier string, seed int64, results []*PartResult, wall float64) int {
	known := loadFindings(p.ID)
	cov := map[string]any{}
	var states, trans, traces, evals, distinct int64
	exhaustive := true
	var samples []any
	var parts []any
	var errs []string
	nviol := 0
	exit := 0
	seenKnown := map[string]bool{}
	seenViol := map[string]bool{}
	var knownHit []string
	for _, r := range results {
		if r == nil {
			continue
		}
		states += r.States
		trans += r.Transitions
		traces += r.Traces
		evals += r.Evaluations
		distinct += r.Distinct
		if !r.Exhaustive {
			exhaustive = false
		}
		if r.Error != "" {
			errs = append(errs, r.Name+": "+r.Error)
			exhaustive = false
		}
		for i, s := range r.Samples {
			if i < 2 && len(samples) < 12 {
				samples = append(samples, map[string]any{"part": r.Name, "case": s})
			}
		}
		pr := map[string]any{"name": r.Name, "engine": r.Engine, "states": r.States, "transitions": r.Transitions, "traces": r.Traces,
			"evaluations": r.Evaluations, "distinct": r.Distinct, "exhaustive": r.Exhaustive, "wall_s": r.WallS}
		if r.Detail != nil {
			pr["detail"] = r.Detail
		}
		if len(r.Notes) > 0 {
			pr["notes"] = r.Notes
		}
		if r.Error != "" {
			pr["error"] = r.Error
		}
		parts = append(parts, pr)
		for _, v := range r.Violations {
			if f := matchFinding(known, v.Signature); f != nil {
				if !seenKnown[f.Signature] {
					seenKnown[f.Signature] = true
					fmt.Printf("KNOWN-FINDING: property=%s %s [%s]\n", p.ID, f.What, v.Signature)
					knownHit = append(knownHit, f.Signature)
				}
				continue
			}
			if seenViol[v.Signature] {
				continue
			}
			seenViol[v.Signature] = true
			nviol++
			path := writeReplay(p.ID, v)
			fmt.Printf("VIOLATION property=%s replay=%s\n", p.ID, path)
			fmt.Printf("  part=%s signature=%s\n  %s\n", v.Part, v.Signature, firstLines(v.Message, 6))
			exit = 1
		}
	}
	sort.Strings(knownHit)
	cov["states"] = states
	cov["transitions"] = trans
	cov["traces_validated_against_impl"] = traces
	cov["evaluations"] = evals
	cov["distinct_nontrivial"] = distinct
	cov["exhaustive"] = exhaustive
	cov["rule"] = p.Rule
	if len(samples) == 0 {
		samples = append(samples, "no case was explored")
	}
	cov["samples"] = samples
	cov["parts"] = parts
	cov["known_findings_matched"] = knownHit
	if len(errs) > 0 {
		cov["errors"] = errs
	}
	if len(p.NotReached) > 0 {
		cov["not_reached"] = p.NotReached
	}
	ev := map[string]any{
		"property_id": p.ID, "tier": tier, "seed": seed, "level": p.Level, "coverage": cov,
		"assumptions": p.Assumptions, "wall_s": wall, "violations": nviol,
	}
	_ = os.MkdirAll(filepath.Join(verifDir, "evidence"), 0o755)
	js, _ := json.MarshalIndent(ev, "", " ")
	if err := os.WriteFile(filepath.Join(verifDir, "evidence", p.ID+".json"), js, 0o644); err != nil {
		fmt.Fprintln(os.Stderr, "cannot write evidence:", err)
		return 2
	}
	fmt.Printf("%s tier=%s parts=%d states=%d transitions=%d executions=%d distinct=%d exhaustive=%v violations=%d known=%d wall=%.1fs\n",
		p.ID, tier, len(results), states, trans, traces, distinct, exhaustive, nviol, len(knownHit), wall)
	if len(errs) > 0 && exit == 0 {
		for _, e := range errs {
			fmt.Fprintln(os.Stderr, "INFRASTRUCTURE:", firstLines(e, 12))
		}
		return 2
	}
	return exit
}

func firstLines(s string, n int) string {
	ls := strings.Split(s, "\n")
	if len(ls) > n {
		ls = append(ls[:n], "...")
	}
	return strings.Join(ls, "\n  ")
}

type replayFile struct {
	Property  string          `json:"property"`
	Part      string          `json:"part"`
	Engine    string          `json:"engine"`
	Signature string          `json:"signature"`
	Message   string          `json:"message"`
	Replay    json.RawMessage `json:"replay"`
}

func writeReplay(id string, v *Violation) string {
	dir := filepath.Join(verifDir, "replays", id)
	_ = os.MkdirAll(dir, 0o755)
	h := sha1.Sum([]byte(v.Signature))
	path := filepath.Join(dir, hex.EncodeToString(h[:6])+".json")
	js, _ := json.MarshalIndent(replayFile{Property: id, Part: v.Part, Engine: v.Engine, Signature: v.Signature, Message: v.Message, Replay: v.Replay}, "", " ")
	_ = os.WriteFile(path, js, 0o644)
	return path
}

func doReplay(p *Property, path string) int {
	b, err := os.ReadFile(path)
	if err != nil {
		fmt.Fprintln(os.Stderr, err)
		return 2
	}
	var rf replayFile
	if err := json.Unmarshal(b, &rf); err != nil {
		fmt.Fprintln(os.Stderr, err)
		return 2
	}
	if strings.HasPrefix(rf.Part, "hb:") {
		if !vrace.Enabled {
			self, _ := os.Executable()
			dir, _ := os.MkdirTemp("", "verif-racelog")
			defer os.RemoveAll(dir)
			cmd := exec.Command(self+"hb", "--replay", path)
			cmd.Env = append(os.Environ(), "GOMAXPROCS=1", "GORACE=log_path="+filepath.Join(dir, "race")+" exitcode=0 halt_on_error=0", "VERIF_RACELOG="+filepath.Join(dir, "race"))
			cmd.Stdout, cmd.Stderr = os.Stdout, os.Stderr
			if err := cmd.Run(); err != nil {
				if ee, ok := err.(*exec.ExitError); ok {
					return ee.ExitCode()
				}
				fmt.Fprintln(os.Stderr, "replay error:", err)
				return 2
			}
			return 0
		}
		rf.Part = strings.TrimPrefix(rf.Part, "hb:")
		sched.PostExec = raceChecker(os.Getenv("VERIF_RACELOG"))
		for _, sc := range p.Scenarios {
			sc.Check = func(*vrt.Exec) *sched.Violation { return nil }
		}
	}
	for _, sc := range p.Scenarios {
		if sc.Name == rf.Part {
			sc.Delay = sc.Delay || p.Delay
			sc.ReleasePoints = sc.ReleasePoints || p.ReleasePoints
			var sv sched.Violation
			_ = json.Unmarshal(rf.Replay, &sv)
			v, tr, err := sched.Replay(sc, sv.Schedule)
			if err != nil {
				fmt.Fprintln(os.Stderr, "replay error:", err)
				return 2
			}
			fmt.Println(tr)
			if v != nil {
				fmt.Printf("VIOLATION property=%s replay=%s\n  signature=%s|%s\n  %s\n", p.ID, path, sc.Name, v.Signature, firstLines(v.Message, 10))
				return 1
			}
			fmt.Println("replay: no violation")
			return 0
		}
	}
	for _, pt := range p.Parts {
		if pt.Name == rf.Part && pt.Replay != nil {
			v, detail, err := pt.Replay(rf.Replay)
			if err != nil {
				fmt.Fprintln(os.Stderr, "replay error:", err)
				return 2
			}
			fmt.Println(detail)
			if v != "" {
				fmt.Printf("VIOLATION property=%s replay=%s\n  %s\n", p.ID, path, v)
				return 1
			}
			fmt.Println("replay: no violation")
			return 0
		}
	}
	fmt.Fprintln(os.Stderr, "replay: unknown part", rf.Part)
	return 2
}
