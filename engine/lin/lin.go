// Package lin checks the call/return histories recorded by engine S for
// linearizability with porcupine against a sequential key-value model.
package lin

import (
	"fmt"
	"sort"
	"strings"

	"github.com/anishathalye/porcupine"

	"verif/vrt"
)

// Input of one KV operation.
type Input struct {
	Op    string // get has set delete deleteprefix iterate iteratekeys
	Key   string // full stored key (realm||key) or full prefix
	Val   string
	Strip int  // bytes stripped from reported keys (realm length)
	Back  bool // backward iteration
}

// Output of one KV operation.
type Output struct {
	Val   string
	Found bool
	Pairs string // iteration result, canonical
}

type state string // canonical "k=v;k=v" sorted by key

func parse(s state) map[string]string {
	m := map[string]string{}
	if s == "" {
		return m
	}
	for _, kv := range strings.Split(string(s), ";") {
		i := strings.Index(kv, "=")
		m[kv[:i]] = kv[i+1:]
	}
	return m
}

func enc(m map[string]string) state {
	ks := make([]string, 0, len(m))
	for k := range m {
		ks = append(ks, k)
	}
	sort.Strings(ks)
	var b strings.Builder
	for i, k := range ks {
		if i > 0 {
			b.WriteByte(';')
		}
		b.WriteString(k + "=" + m[k])
	}
	return state(b.String())
}

// Hex encodes bytes so that '=' and ';' never occur in keys or values.
func Hex(b []byte) string { return fmt.Sprintf("%x", b) }

// Pairs renders an iteration result canonically.
func Pairs(keys, vals []string) string {
	var b strings.Builder
	for i := range keys {
		b.WriteString(keys[i])
		if vals != nil {
			b.WriteString("=" + vals[i])
		}
		b.WriteByte(';')
	}
	return b.String()
}

// Model is the sequential KV model. init is the initial contents.
func Model(init map[string]string) porcupine.Model {
	return porcupine.Model{
		Init: func() interface{} { return enc(init) },
		Step: func(st, in, out interface{}) (bool, interface{}) {
			s, i, o := st.(state), in.(Input), out.(Output)
			m := parse(s)
			switch i.Op {
			case "get":
				v, ok := m[i.Key]
				return ok == o.Found && (!ok || v == o.Val), s
			case "has":
				_, ok := m[i.Key]
				return ok == o.Found, s
			case "set":
				m[i.Key] = i.Val
				return true, enc(m)
			case "delete":
				delete(m, i.Key)
				return true, enc(m)
			case "deleteprefix":
				for k := range m {
					if strings.HasPrefix(k, i.Key) {
						delete(m, k)
					}
				}
				return true, enc(m)
			case "iterate", "iteratekeys":
				var ks []string
				for k := range m {
					if strings.HasPrefix(k, i.Key) {
						ks = append(ks, k)
					}
				}
				sort.Strings(ks)
				if i.Back {
					for a, b := 0, len(ks)-1; a < b; a, b = a+1, b-1 {
						ks[a], ks[b] = ks[b], ks[a]
					}
				}
				var rk, rv []string
				for _, k := range ks {
					rk = append(rk, k[i.Strip:])
					rv = append(rv, m[k])
				}
				if i.Op == "iteratekeys" {
					rv = nil
				}
				return Pairs(rk, rv) == o.Pairs, s
			}
			return false, s
		},
		Equal: func(a, b interface{}) bool { return a.(state) == b.(state) },
		DescribeOperation: func(in, out interface{}) string {
			return fmt.Sprintf("%+v -> %+v", in, out)
		},
	}
}

// Recorder collects operations of one execution; call/return times are positions
// in the execution's global observation log, so they are totally ordered.
type Recorder struct {
	Ops  []porcupine.Operation
	next int
}

// Call marks the invocation of an operation and returns its ticket.
func (r *Recorder) Call() int64 {
	vrt.Observe("call")
	return int64(len(vrt.E.Log))
}

// Return records a completed operation.
func (r *Recorder) Return(client int, call int64, in Input, out Output) {
	vrt.Observe("ret", in.Op, in.Key, out.Val, out.Found, out.Pairs)
	r.Ops = append(r.Ops, porcupine.Operation{ClientId: client, Input: in, Call: call, Output: out, Return: int64(len(vrt.E.Log))})
}

// ReturnMany records several atomic effects that share one call interval (batch commit).
func (r *Recorder) ReturnMany(client int, call int64, ins []Input) {
	vrt.Observe("ret-batch", len(ins))
	ret := int64(len(vrt.E.Log))
	for j, in := range ins {
		r.Ops = append(r.Ops, porcupine.Operation{ClientId: client*100 + 50 + j, Input: in, Call: call, Output: Output{}, Return: ret})
	}
}

// Check reports whether the recorded history is linearizable.
func (r *Recorder) Check(init map[string]string) (bool, string) {
	if porcupine.CheckOperations(Model(init), r.Ops) {
		return true, ""
	}
	var lines []string
	for _, op := range r.Ops {
		lines = append(lines, fmt.Sprintf("client %d [%d,%d] %+v -> %+v", op.ClientId, op.Call, op.Return, op.Input, op.Output))
	}
	return false, strings.Join(lines, "\n")
}
