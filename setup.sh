#!/bin/bash
# Builds the framework from files on disk only (offline) and warms the build cache.
export GOFLAGS=-mod=mod GOPROXY=off GOSUMDB=off GOTOOLCHAIN=local
cd "$(dirname "$0")" || exit 2
mkdir -p build/bin evidence replays
(cd tools/vinstr && go build -o ../../build/bin/vinstr .) || exit 2
rc=0
for d in props/c*/; do
  id=$(basename "$d")
  CHECK_BUILD_ONLY=1 ./check "$id" quick || { echo "setup: build of $id failed" >&2; rc=2; }
done
exit $rc
