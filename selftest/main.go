// selftest: evidence that the machinery itself can be trusted (not a registered check).
//
//  1. explorer self-check: a planted lost update is found at preemption bound 1 and not at bound 0;
//  2. the state cache does not change the set of terminal observations (cached == uncached search);
//  3. shim conformance: small programs are run free on the real Go primitives (many repetitions) and
//     exhaustively under vrt; every outcome seen on real Go must be among the outcomes vrt enumerates,
//     and outcomes that are impossible on real Go by the language definition must not be enumerated.
//
// usage: go run ./selftest   (exit 0 = all passed)
package main

import (
	"fmt"
	"os"
	"sort"
	"strings"
	"sync"
	"sync/atomic"
	"time"

	"verif/engine/sched"
	"verif/vatomic"
	"verif/vrt"
	"verif/vsync"
)

var failed = false

func check(ok bool, format string, a ...any) {
	if ok {
		fmt.Printf("  ok   "+format+"\n", a...)
	} else {
		failed = true
		fmt.Printf("  FAIL "+format+"\n", a...)
	}
}

// outcomes explores sc and returns the set of "final" observations.
func outcomes(run func(), bound int, cache, unbounded bool) (map[string]bool, *sched.Result) {
	set := map[string]bool{}
	sc := &sched.Scenario{Name: "selftest", Run: run, Check: func(e *vrt.Exec) *sched.Violation {
		o := e.Outcome.String()
		for _, ev := range e.Log {
			if ev.Kind == "final" {
				o += fmt.Sprint(ev.Args)
			}
		}
		set[o] = true
		return nil
	}}
	r := sched.Explore(sc, sched.Options{MaxBound: bound, Cache: cache, Unbounded: unbounded})
	return set, r
}

func keys(m map[string]bool) string {
	var ks []string
	for k := range m {
		ks = append(ks, k)
	}
	sort.Strings(ks)
	return strings.Join(ks, " ")
}

func lostUpdate() {
	var x vatomic.Int32
	inc := func() { v := x.Load(); x.Store(v + 1) }
	vrt.Par(inc, inc)
	vrt.Observe("final", x.Load())
}

// ---- conformance programs: each has a real and a controlled version with identical structure ----

type program struct {
	name       string
	real       func() string // one free run on real primitives, returns the outcome
	ctl        func()        // controlled version, must vrt.Observe("final", outcome)
	mustNot    []string      // outcomes that must not be enumerated (impossible by definition)
	mustHave   []string      // outcomes that must be enumerated
	realRounds int
}

func within(d time.Duration, f func()) bool {
	done := make(chan struct{})
	go func() { f(); close(done) }()
	select {
	case <-done:
		return true
	case <-time.After(d):
		return false
	}
}

func programs() []program {
	return []program{
		{name: "mutex-counter", realRounds: 200,
			real: func() string {
				var mu sync.Mutex
				n := 0
				var wg sync.WaitGroup
				for i := 0; i < 2; i++ {
					wg.Add(1)
					go func() { defer wg.Done(); mu.Lock(); n++; mu.Unlock() }()
				}
				wg.Wait()
				return fmt.Sprint(n)
			},
			ctl: func() {
				var mu vsync.Mutex
				n := 0
				inc := func() { mu.Lock(); n++; mu.Unlock() }
				vrt.Par(inc, inc)
				vrt.Observe("final", fmt.Sprint(n))
			}, mustHave: []string{"[2]"}, mustNot: []string{"[1]"}},
		{name: "rwmutex-trylock-sees-pending-writer", realRounds: 300,
			// reader holds; a writer queues; TryRLock by a third party fails iff the writer has announced itself
			real: func() string {
				var rw sync.RWMutex
				rw.RLock()
				started := make(chan struct{})
				go func() { close(started); rw.Lock(); rw.Unlock() }()
				<-started
				ok := rw.TryRLock()
				if ok {
					rw.RUnlock()
				}
				rw.RUnlock()
				return fmt.Sprint(ok)
			},
			ctl: func() {
				var rw vsync.RWMutex
				rw.RLock()
				w := vrt.Spawn(func() { rw.Lock(); rw.Unlock() })
				ok := rw.TryRLock()
				if ok {
					rw.RUnlock()
				}
				rw.RUnlock()
				w.Join()
				vrt.Observe("final", fmt.Sprint(ok))
			}, mustHave: []string{"[true]", "[false]"}},
		{name: "recursive-rlock-with-queued-writer-can-deadlock", realRounds: 0,
			ctl: func() {
				var rw vsync.RWMutex
				vrt.Par(
					func() { rw.RLock(); vrt.Yield(); rw.RLock(); rw.RUnlock(); rw.RUnlock() },
					func() { rw.Lock(); rw.Unlock() },
				)
				vrt.Observe("final", "done")
			}, mustHave: []string{"ok[done]", "deadlock"}},
		{name: "cond-signal-before-wait-is-lost", realRounds: 0,
			ctl: func() {
				var mu vsync.Mutex
				c := vsync.NewCond(&mu)
				ready := false
				vrt.Par(
					func() {
						mu.Lock()
						for !ready {
							c.Wait()
						}
						mu.Unlock()
					},
					func() { mu.Lock(); ready = true; mu.Unlock(); c.Signal() },
				)
				vrt.Observe("final", "done")
			}, mustHave: []string{"ok[done]"}, mustNot: []string{"deadlock"}}, // predicate re-check under the lock makes it safe
		{name: "cond-signal-without-predicate-can-be-lost", realRounds: 0,
			ctl: func() {
				var mu vsync.Mutex
				c := vsync.NewCond(&mu)
				vrt.Par(
					func() { mu.Lock(); c.Wait(); mu.Unlock() },
					func() { c.Signal() },
				)
				vrt.Observe("final", "done")
			}, mustHave: []string{"ok[done]", "deadlock"}},
		{name: "unbuffered-chan-poll", realRounds: 300,
			real: func() string {
				ch := make(chan int)
				go func() { ch <- 1 }()
				select {
				case v := <-ch:
					return fmt.Sprint(v)
				default:
					<-ch
					return "default"
				}
			},
			ctl: func() {
				ch := make(chan int)
				vrt.Go(func() { vrt.Send(ch, 1) })
				r := vrt.Select(true, vrt.RecvCase(ch))
				if r.I == 0 {
					vrt.Observe("final", fmt.Sprint(vrt.Val(ch, r)))
				} else {
					vrt.Recv(ch)
					vrt.Observe("final", "default")
				}
			}, mustHave: []string{"[1]", "[default]"}},
		{name: "buffered-chan-fifo-and-close", realRounds: 50,
			real: func() string {
				ch := make(chan int, 2)
				ch <- 1
				ch <- 2
				close(ch)
				a := <-ch
				b := <-ch
				_, ok := <-ch
				return fmt.Sprint(a, b, ok)
			},
			ctl: func() {
				ch := make(chan int, 2)
				vrt.Send(ch, 1)
				vrt.Send(ch, 2)
				vrt.Close(ch)
				a := vrt.Recv(ch)
				b := vrt.Recv(ch)
				_, ok := vrt.Recv2(ch)
				vrt.Observe("final", fmt.Sprint(a, b, ok))
			}, mustHave: []string{"[1 2 false]"}},
		{name: "select-two-ready-cases-either-may-fire", realRounds: 300,
			real: func() string {
				a, b := make(chan int, 1), make(chan int, 1)
				a <- 1
				b <- 2
				select {
				case v := <-a:
					return fmt.Sprint(v)
				case v := <-b:
					return fmt.Sprint(v)
				}
			},
			ctl: func() {
				a, b := make(chan int, 1), make(chan int, 1)
				vrt.Send(a, 1)
				vrt.Send(b, 2)
				r := vrt.Select(false, vrt.RecvCase(a), vrt.RecvCase(b))
				vrt.Observe("final", fmt.Sprint(r.V))
			}, mustHave: []string{"[1]", "[2]"}},
		{name: "waitgroup-and-once", realRounds: 100,
			real: func() string {
				var wg sync.WaitGroup
				var once sync.Once
				var n atomic.Int32
				for i := 0; i < 3; i++ {
					wg.Add(1)
					go func() { defer wg.Done(); once.Do(func() { n.Add(1) }) }()
				}
				wg.Wait()
				return fmt.Sprint(n.Load())
			},
			ctl: func() {
				var wg vsync.WaitGroup
				var once vsync.Once
				var n vatomic.Int32
				for i := 0; i < 3; i++ {
					wg.Add(1)
					vrt.Go(func() { defer wg.Done(); once.Do(func() { n.Add(1) }) })
				}
				wg.Wait()
				vrt.Observe("final", fmt.Sprint(n.Load()))
			}, mustHave: []string{"[1]"}, mustNot: []string{"[2]", "[3]", "[0]"}},
		{name: "send-on-closed-channel-panics", realRounds: 20,
			real: func() (out string) {
				defer func() {
					if recover() != nil {
						out = "panic"
					}
				}()
				ch := make(chan int, 1)
				close(ch)
				ch <- 1
				return "no panic"
			},
			ctl: func() {
				ch := make(chan int, 1)
				vrt.Close(ch)
				defer func() {
					if recover() != nil {
						vrt.Observe("final", "panic")
					}
				}()
				vrt.Send(ch, 1)
				vrt.Observe("final", "no panic")
			}, mustHave: []string{"[panic]"}, mustNot: []string{"[no panic]"}},
	}
}

func main() {
	fmt.Println("1. explorer self-check (planted lost update)")
	o0, _ := outcomes(lostUpdate, 0, false, false)
	o1, _ := outcomes(lostUpdate, 1, false, false)
	check(!o0["ok[1]"] && o0["ok[2]"], "bound 0 only sees the correct result: %s", keys(o0))
	check(o1["ok[1]"], "bound 1 finds the lost update: %s", keys(o1))

	fmt.Println("2. cached == uncached search (sets of terminal observations)")
	for _, p := range programs() {
		u, ru := outcomes(p.ctl, 4, false, false)
		c, rc := outcomes(p.ctl, 4, true, false)
		a, ra := outcomes(p.ctl, 0, true, true)
		nu, nc, na := 0, 0, 0
		for _, b := range ru.Bounds {
			nu += b.Executions
		}
		for _, b := range rc.Bounds {
			nc += b.Executions
		}
		if ra.Unbounded != nil {
			na = ra.Unbounded.Executions
		}
		sub := true
		for k := range u {
			if !a[k] {
				sub = false
			}
		}
		check(keys(u) == keys(c) && sub, "%-50s bound4 uncached {%s} (%d execs) == cached (%d execs); all-interleavings {%s} (%d execs)", p.name, keys(u), nu, nc, keys(a), na)
	}

	fmt.Println("3. shim conformance (real Go outcomes must be enumerated; impossible outcomes must not)")
	for _, p := range programs() {
		all, _ := outcomes(p.ctl, 0, true, true)
		for _, m := range p.mustHave {
			found := false
			for k := range all {
				if strings.Contains(k, m) {
					found = true
				}
			}
			check(found, "%-50s enumerates %s", p.name, m)
		}
		for _, m := range p.mustNot {
			found := false
			for k := range all {
				if strings.Contains(k, m) {
					found = true
				}
			}
			check(!found, "%-50s does not enumerate %s", p.name, m)
		}
		seen := map[string]bool{}
		for i := 0; i < p.realRounds; i++ {
			var out string
			if !within(2*time.Second, func() { out = p.real() }) {
				out = "timeout"
			}
			seen[out] = true
		}
		for out := range seen {
			found := false
			for k := range all {
				if strings.Contains(k, "["+out+"]") {
					found = true
				}
			}
			check(found, "%-50s outcome %q observed on real Go (%d runs) is enumerated by vrt", p.name, out, p.realRounds)
		}
	}
	if failed {
		fmt.Println("SELFTEST FAILED")
		os.Exit(1)
	}
	fmt.Println("selftest passed")
}
