//go:build vnative

package vtime

import "time"

type (
	Time       = time.Time
	Duration   = time.Duration
	Month      = time.Month
	Weekday    = time.Weekday
	Location   = time.Location
	ParseError = time.ParseError
	Timer      = time.Timer
	Ticker     = time.Ticker
)

const (
	Nanosecond  = time.Nanosecond
	Microsecond = time.Microsecond
	Millisecond = time.Millisecond
	Second      = time.Second
	Minute      = time.Minute
	Hour        = time.Hour

	RFC3339     = time.RFC3339
	RFC3339Nano = time.RFC3339Nano
	RFC1123     = time.RFC1123
	Kitchen     = time.Kitchen
	DateTime    = time.DateTime
	January     = time.January
)

var (
	UTC   = time.UTC
	Local = time.Local

	Unix          = time.Unix
	UnixMilli     = time.UnixMilli
	UnixMicro     = time.UnixMicro
	Date          = time.Date
	Parse         = time.Parse
	ParseDuration = time.ParseDuration
	FixedZone     = time.FixedZone

	Now       = time.Now
	Since     = time.Since
	Until     = time.Until
	Sleep     = time.Sleep
	NewTimer  = time.NewTimer
	NewTicker = time.NewTicker
	AfterFunc = time.AfterFunc
	After     = time.After
	Tick      = time.Tick
)
