//go:build !vnative

// Package vtime replaces package time for instrumented code: the data types are
// aliases of the real ones, everything that reads or waits for the clock runs on
// vrt's virtual clock.
package vtime

import (
	"time"

	"verif/vrt"
)

type (
	Time       = time.Time
	Duration   = time.Duration
	Month      = time.Month
	Weekday    = time.Weekday
	Location   = time.Location
	ParseError = time.ParseError
)

const (
	Nanosecond  = time.Nanosecond
	Microsecond = time.Microsecond
	Millisecond = time.Millisecond
	Second      = time.Second
	Minute      = time.Minute
	Hour        = time.Hour

	RFC3339     = time.RFC3339
	RFC3339Nano = time.RFC3339Nano
	RFC1123     = time.RFC1123
	Kitchen     = time.Kitchen
	DateTime    = time.DateTime
)

const (
	January = time.January
)

var (
	UTC   = time.UTC
	Local = time.Local

	Unix          = time.Unix
	UnixMilli     = time.UnixMilli
	UnixMicro     = time.UnixMicro
	Date          = time.Date
	Parse         = time.Parse
	ParseDuration = time.ParseDuration
	FixedZone     = time.FixedZone
)

// Epoch is the virtual time at offset 0.
var Epoch = time.Date(2024, 1, 1, 0, 0, 0, 0, time.UTC)

func Now() Time {
	n := vrt.Now()
	vrt.Touch(-3, false, uint64(n))
	return Epoch.Add(time.Duration(n))
}

func Since(t Time) Duration { return Now().Sub(t) }
func Until(t Time) Duration { return t.Sub(Now()) }

// Sleep blocks until the virtual clock has advanced by d.
func Sleep(d Duration) {
	if d <= 0 {
		vrt.Yield()
		return
	}
	if vrt.E == nil {
		return
	}
	woken := false
	vrt.AddTimer(int64(d), func() { woken = true })
	vrt.Point("time.sleep", -1, func() bool { return woken })
}

type Timer struct {
	C  <-chan Time
	c  chan Time
	h  vrt.TimerHandle
	f  func()
	on bool
}

func NewTimer(d Duration) *Timer {
	c := make(chan Time, 1)
	t := &Timer{C: c, c: c}
	t.arm(d)
	return t
}

func (t *Timer) arm(d Duration) {
	t.on = true
	t.h = vrt.AddTimer(int64(d), func() {
		t.on = false
		if t.f != nil {
			vrt.Go(t.f)
			return
		}
		vrt.TrySendNB(t.c, Now())
	})
}

func AfterFunc(d Duration, f func()) *Timer {
	t := &Timer{f: f}
	t.arm(d)
	return t
}

func After(d Duration) <-chan Time { return NewTimer(d).C }

// Stop follows the pre-Go-1.23 semantics (the channel is not drained).
func (t *Timer) Stop() bool {
	if vrt.Aborting() {
		return false
	}
	vrt.Point("timer.stop", -1, nil)
	was := t.on && vrt.StopTimer(t.h)
	t.on = false
	return was
}

func (t *Timer) Reset(d Duration) bool {
	vrt.Point("timer.reset", -1, nil)
	was := t.on && vrt.StopTimer(t.h)
	t.arm(d)
	return was
}

type Ticker struct {
	C       <-chan Time
	c       chan Time
	h       vrt.TimerHandle
	d       Duration
	stopped bool
}

func NewTicker(d Duration) *Ticker {
	if d <= 0 {
		panic("non-positive interval for NewTicker")
	}
	c := make(chan Time, 1)
	t := &Ticker{C: c, c: c, d: d}
	t.arm()
	return t
}

func (t *Ticker) arm() {
	t.h = vrt.AddTimer(int64(t.d), func() {
		if t.stopped {
			return
		}
		vrt.TrySendNB(t.c, Now())
		t.arm()
	})
}

func (t *Ticker) Stop() {
	if vrt.Aborting() {
		return
	}
	vrt.Point("ticker.stop", -1, nil)
	t.stopped = true
	vrt.StopTimer(t.h)
}

func (t *Ticker) Reset(d Duration) {
	vrt.Point("ticker.reset", -1, nil)
	vrt.StopTimer(t.h)
	t.d = d
	t.stopped = false
	t.arm()
}

func Tick(d Duration) <-chan Time { return NewTicker(d).C }
