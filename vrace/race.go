//go:build race

// Package vrace exposes the race detector's annotation interface to the shims: in a -race build the controlled
// scheduler hides its own hand-offs from the detector (Disable/Enable) and the shims report exactly the
// happens-before edges Go's memory model gives the modelled primitives (Acquire/Release/ReleaseMerge), so that the
// detector judges every explored interleaving by the real synchronisation of the code under test.
package vrace

import (
	"runtime"
	"unsafe"
)

const Enabled = true

func Acquire(p unsafe.Pointer)      { runtime.RaceAcquire(p) }
func Release(p unsafe.Pointer)      { runtime.RaceRelease(p) }
func ReleaseMerge(p unsafe.Pointer) { runtime.RaceReleaseMerge(p) }
func Disable()                      { runtime.RaceDisable() }
func Enable()                       { runtime.RaceEnable() }
