//go:build !race

package vrace

import "unsafe"

const Enabled = false

func Acquire(p unsafe.Pointer)      {}
func Release(p unsafe.Pointer)      {}
func ReleaseMerge(p unsafe.Pointer) {}
func Disable()                      {}
func Enable()                       {}
