//go:build !vnative

// Package vatomic is the controlled replacement of sync/atomic (typed values only).
package vatomic

import (
	"unsafe"

	"verif/vrace"
	"verif/vrt"
)

type hdr struct {
	gen uint32
	id  int
}

// Atomic values keep their contents across executions only if they are globals;
// objects created by a scenario are fresh anyway, so no reset is needed here.
func (h *hdr) obj() int {
	g := vrt.Gen()
	if h.gen != g || h.id == 0 {
		h.gen = g
		h.id = vrt.NewObj()
	}
	return h.id
}

// the race detector treats every atomic operation as acquire (before) + release (after) on the value's address
func rd(h *hdr, v uint64) { vrt.Touch(h.obj(), false, v); vrace.ReleaseMerge(unsafe.Pointer(h)) }
func wr(h *hdr, v uint64) { vrt.Touch(h.obj(), true, v); vrace.ReleaseMerge(unsafe.Pointer(h)) }
func pt(h *hdr, k string) { vrt.Point(k, h.obj(), nil); vrace.Acquire(unsafe.Pointer(h)) }

type Bool struct {
	h hdr
	v bool
}

func b2u(b bool) uint64 {
	if b {
		return 1
	}
	return 0
}

func (x *Bool) Load() bool   { pt(&x.h, "atomic.load"); v := x.v; rd(&x.h, b2u(v)); return v }
func (x *Bool) Store(v bool) { pt(&x.h, "atomic.store"); x.v = v; wr(&x.h, b2u(v)) }
func (x *Bool) Swap(v bool) bool {
	pt(&x.h, "atomic.swap")
	o := x.v
	x.v = v
	wr(&x.h, b2u(v))
	return o
}
func (x *Bool) CompareAndSwap(o, n bool) bool {
	pt(&x.h, "atomic.cas")
	if x.v == o {
		x.v = n
		wr(&x.h, b2u(n))
		return true
	}
	cur := x.v
	rd(&x.h, b2u(cur))
	return false
}

type num interface {
	~int32 | ~int64 | ~uint32 | ~uint64 | ~uintptr
}

type numv[T num] struct {
	h hdr
	v T
}

func (x *numv[T]) Load() T   { pt(&x.h, "atomic.load"); v := x.v; rd(&x.h, uint64(v)); return v }
func (x *numv[T]) Store(v T) { pt(&x.h, "atomic.store"); x.v = v; wr(&x.h, uint64(v)) }
func (x *numv[T]) Swap(v T) T {
	pt(&x.h, "atomic.swap")
	o := x.v
	x.v = v
	wr(&x.h, uint64(v))
	return o
}
func (x *numv[T]) Add(d T) T {
	pt(&x.h, "atomic.add")
	nv := x.v + d
	x.v = nv
	wr(&x.h, uint64(nv)) // nothing touches x.v after the release annotation inside wr
	return nv
}
func (x *numv[T]) CompareAndSwap(o, n T) bool {
	pt(&x.h, "atomic.cas")
	if x.v == o {
		x.v = n
		wr(&x.h, uint64(n))
		return true
	}
	cur := x.v
	rd(&x.h, uint64(cur))
	return false
}

type Int32 struct{ numv[int32] }
type Int64 struct{ numv[int64] }
type Uint32 struct{ numv[uint32] }
type Uint64 struct{ numv[uint64] }
type Uintptr struct{ numv[uintptr] }

type Pointer[T any] struct {
	h hdr
	v *T
}

func (x *Pointer[T]) Load() *T {
	pt(&x.h, "atomic.load")
	v := x.v
	rd(&x.h, vrt.HashPtr(unsafe.Pointer(v)))
	return v
}
func (x *Pointer[T]) Store(v *T) {
	pt(&x.h, "atomic.store")
	x.v = v
	wr(&x.h, vrt.HashPtr(unsafe.Pointer(v)))
}
func (x *Pointer[T]) Swap(v *T) *T {
	pt(&x.h, "atomic.swap")
	o := x.v
	x.v = v
	wr(&x.h, vrt.HashPtr(unsafe.Pointer(v)))
	return o
}
func (x *Pointer[T]) CompareAndSwap(o, n *T) bool {
	pt(&x.h, "atomic.cas")
	if x.v == o {
		x.v = n
		wr(&x.h, vrt.HashPtr(unsafe.Pointer(n)))
		return true
	}
	cur := x.v
	rd(&x.h, vrt.HashPtr(unsafe.Pointer(cur)))
	return false
}

type Value struct {
	h hdr
	v any
}

func (x *Value) Load() any   { pt(&x.h, "atomic.load"); v := x.v; rd(&x.h, 1); return v }
func (x *Value) Store(v any) { pt(&x.h, "atomic.store"); x.v = v; wr(&x.h, 2) }
