//go:build vnative

package vatomic

import "sync/atomic"

type (
	Bool    = atomic.Bool
	Int32   = atomic.Int32
	Int64   = atomic.Int64
	Uint32  = atomic.Uint32
	Uint64  = atomic.Uint64
	Uintptr = atomic.Uintptr
	Value   = atomic.Value
)

type Pointer[T any] struct{ atomic.Pointer[T] }
