//go:build vnative

package vcontext

import "context"

type (
	Context         = context.Context
	CancelFunc      = context.CancelFunc
	CancelCauseFunc = context.CancelCauseFunc
)

var (
	Canceled         = context.Canceled
	DeadlineExceeded = context.DeadlineExceeded
	Background       = context.Background
	TODO             = context.TODO
	WithValue        = context.WithValue
	Cause            = context.Cause
	WithCancel       = context.WithCancel
	WithTimeout      = context.WithTimeout
	WithDeadline     = context.WithDeadline
)

func CancelStepOf(ctx Context) int { return 0 }
func IDOf(ctx Context) int         { return 0 }
