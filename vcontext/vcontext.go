//go:build !vnative

// Package vcontext replaces package context for instrumented code: Done channels
// are closed by a visible operation (vrt.Close) and the step of every
// cancellation is recorded.
package vcontext

import (
	"context"
	"time"

	"verif/vrt"
)

type (
	Context         = context.Context
	CancelFunc      = context.CancelFunc
	CancelCauseFunc = context.CancelCauseFunc
)

var (
	Canceled         = context.Canceled
	DeadlineExceeded = context.DeadlineExceeded
	Background       = context.Background
	TODO             = context.TODO
	WithValue        = context.WithValue
	Cause            = context.Cause
)

type cancelCtx struct {
	parent   Context
	done     chan struct{}
	err      error
	children []*cancelCtx
	id       int
	// CancelStep is the step at which the context was cancelled (0 = not yet).
	CancelStep int
}

func (c *cancelCtx) Deadline() (time.Time, bool) { return c.parent.Deadline() }
func (c *cancelCtx) Done() <-chan struct{}       { return c.done }
func (c *cancelCtx) Err() error {
	vrt.Point("ctx.err", c.id, nil)
	vrt.Touch(c.id, false, 1)
	return c.err
}
func (c *cancelCtx) Value(k any) any {
	if k == (selfKey{}) {
		return c
	}
	return c.parent.Value(k)
}

type selfKey struct{}

func (c *cancelCtx) cancel(err error) {
	if c.err != nil {
		return
	}
	if vrt.Aborting() {
		return
	}
	c.err = err
	c.CancelStep = vrt.Step()
	vrt.Touch(c.id, true, 2)
	vrt.Observe("ctx.cancel", c.id)
	vrt.Close(c.done)
	if c.CancelStep == 0 {
		c.CancelStep = 1
	}
	c.CancelStep = vrt.Step()
	for _, ch := range c.children {
		ch.cancel(err)
	}
}

func WithCancel(parent Context) (Context, CancelFunc) {
	c := &cancelCtx{parent: parent, done: make(chan struct{}), id: vrt.NewObj()}
	if p, ok := parent.Value(selfKey{}).(*cancelCtx); ok && p != nil {
		if p.err != nil {
			c.cancel(p.err)
		} else {
			p.children = append(p.children, c)
		}
	} else if parent.Done() != nil {
		// foreign cancellable parent: propagate through a controlled thread
		vrt.Go(func() {
			vrt.Recv(parent.Done())
			c.cancel(parent.Err())
		})
	}
	return c, func() { c.cancel(Canceled) }
}

func WithTimeout(parent Context, d time.Duration) (Context, CancelFunc) {
	ctx, cancel := WithCancel(parent)
	c := ctx.(*cancelCtx)
	h := vrt.AddTimer(int64(d), func() { c.cancel(DeadlineExceeded) })
	return ctx, func() { vrt.StopTimer(h); cancel() }
}

func WithDeadline(parent Context, t time.Time) (Context, CancelFunc) {
	return WithTimeout(parent, t.Sub(time.Date(2024, 1, 1, 0, 0, 0, 0, time.UTC).Add(time.Duration(vrt.Now()))))
}

// IDOf returns the identity of a controlled cancel context (0 if it is none).
func IDOf(ctx Context) int {
	if c, ok := ctx.Value(selfKey{}).(*cancelCtx); ok && c != nil {
		return c.id
	}
	return 0
}

// CancelStepOf returns the step at which ctx was cancelled (0 if not or unknown).
func CancelStepOf(ctx Context) int {
	if c, ok := ctx.Value(selfKey{}).(*cancelCtx); ok && c != nil {
		return c.CancelStep
	}
	return 0
}
