// C03 — wire format is fixed; validated decoding accepts only canonical bytes.
package main

import (
	"bytes"
	"encoding/json"
	"fmt"
	"reflect"
	"sort"
	"strings"

	"github.com/iotaledger/hive.go/serializer/v2/serix"

	"verif/engine/cli"
	"verif/props/serixgen"
)

type recorder struct {
	viol                               map[string]*cli.Violation
	evals, distinct, accepted, skipped int64
	samples                            []any
}

func (r *recorder) fail(class, shape, detail string, replay any) {
	if r.viol[class] != nil {
		return
	}
	raw, _ := json.Marshal(replay)
	r.viol[class] = &cli.Violation{Part: "serix", Engine: "I", Signature: class, Message: detail + "\n  shape: " + shape, Replay: raw}
}

func guard(f func()) (panicked bool) {
	defer func() {
		if r := recover(); r != nil {
			panicked = true
		}
	}()
	f()
	return
}

func fieldKey(n *serixgen.Node) string {
	return strings.TrimSuffix(strings.TrimPrefix(n.Name, "struct{"), "}")
}

// forward: Encode(v) == reference encoding for every accepted value.
func forward(api *serix.API, rec *recorder, n *serixgen.Node) {
	for _, v := range n.Vals() {
		for _, validate := range []bool{false, true} {
			rec.evals++
			var enc []byte
			var err error
			if guard(func() { enc, err = serixgen.Encode(api, n, v, validate) }) || err != nil {
				continue // panics belong to C01/C02, rejected values are allowed
			}
			ref, refErr := n.Ref(v, validate)
			if refErr != nil {
				// the reference says this value must not be accepted (e.g. length does not fit the prefix, bounds violated)
				rec.fail("forward|accepts-value-the-layout-cannot-express|"+fieldKey(n), n.Name, fmt.Sprintf("Encode (validate=%v) accepted %s and produced %x although the documented layout/rules cannot express it", validate, n.Canon(v), enc), map[string]any{"shape": n.Name, "value": n.Canon(v), "validate": validate})
				continue
			}
			rec.distinct++
			if !bytes.Equal(enc, ref) {
				rec.fail("forward|layout-differs|"+fieldKey(n), n.Name, fmt.Sprintf("Encode (validate=%v) of %s produced %x, the documented layout gives %x", validate, n.Canon(v), enc, ref), map[string]any{"shape": n.Name, "value": n.Canon(v), "validate": validate})
			} else if len(rec.samples) < 3 && len(enc) > 3 {
				rec.samples = append(rec.samples, fmt.Sprintf("%s: %s -> %x (== reference encoder)", n.Name, n.Canon(v), enc))
			}
		}
	}
}

// reverse: whenever Decode with validation accepts b consuming n bytes, re-encoding yields exactly b[:n].
func reverseOne(api *serix.API, rec *recorder, n *serixgen.Node, b []byte) {
	rec.evals++
	var dec reflect.Value
	var consumed int
	var err error
	if guard(func() { dec, consumed, err = serixgen.Decode(api, n, b, true) }) || err != nil {
		return
	}
	if consumed > len(b) {
		return // C02's business
	}
	if !serixgen.InRangeOf(n, dec) {
		// saturated timestamps are excluded by the statement - but only where the INPUT stamp lies outside the int64
		// range: a wire stamp below the maximum that comes back as the maximum is an in-range input decoded wrongly
		var re []byte
		var rerr error
		if !guard(func() { re, rerr = serixgen.Encode(api, n, dec, true) }) && rerr == nil && len(re) == consumed {
			sat := []byte{0xff, 0xff, 0xff, 0xff, 0xff, 0xff, 0xff, 0x7f}
			for k := 0; k+8 <= len(re); k++ {
				if bytes.Equal(re[k:k+8], sat) && !bytes.Equal(b[k:k+8], sat) && b[k+7] < 0x80 {
					rec.fail("reverse|in-range-timestamp-saturated|"+fieldKey(n), n.Name, fmt.Sprintf("Decode with validation accepts %x; the 8 bytes at offset %d are a timestamp inside the int64-nanosecond range, but the decoded value re-encodes them as the saturated maximum (%x)", b, k, re), map[string]any{"shape": n.Name, "bytes": fmt.Sprintf("%x", b)})
					return
				}
			}
		}
		rec.skipped++
		return
	}
	rec.accepted++
	rp := map[string]any{"shape": n.Name, "bytes": fmt.Sprintf("%x", b)}
	var re []byte
	if guard(func() { re, err = serixgen.Encode(api, n, dec, true) }) {
		return
	}
	if err != nil {
		rec.fail("reverse|accepted-bytes-do-not-re-encode|"+fieldKey(n), n.Name, fmt.Sprintf("Decode with validation accepts %x (consuming %d bytes) as %s, but Encode with validation rejects that value: %v", b, consumed, n.Canon(dec), err), rp)
		return
	}
	if !bytes.Equal(re, b[:consumed]) {
		rec.fail("reverse|non-canonical-bytes-accepted|"+fieldKey(n), n.Name, fmt.Sprintf("Decode with validation accepts %x (consuming %d bytes) as %s, but the canonical encoding of that value is %x", b, consumed, n.Canon(dec), re), rp)
	}
}

func run(c *cli.Ctx, what string) *cli.PartResult {
	api := serixgen.NewAPI()
	rec := &recorder{viol: map[string]*cli.Violation{}}
	if c.Thorough() {
		serixgen.MaxValues = 1000
	}
	maxLen := 4
	if c.Thorough() {
		maxLen = 6
	}
	shapes := serixgen.Shapes(c.Thorough())
	nk := len(serixgen.FieldKinds())
	exhaustive := true
	n := 0
	for i, sh := range shapes {
		if i%c.NShards != c.Shard {
			continue
		}
		if strings.Contains(sh.Name, "[2]uint16") {
			continue // arrays of non-byte elements cannot be decoded at all (C01 known finding)
		}
		if c.Expired() {
			exhaustive = false
			break
		}
		n++
		switch what {
		case "forward":
			forward(api, rec, sh)
		case "reverse-strings":
			if i >= nk && !c.Thorough() && i%5 != 0 {
				continue // quick: all single-field shapes and every fifth larger one
			}
			serixgen.AllStrings(maxLen, func(b []byte) { reverseOne(api, rec, sh, b) })
		case "reverse-mutations":
			for _, v := range sh.Vals() {
				enc, err := serixgen.Encode(api, sh, v, true)
				if err != nil {
					continue
				}
				reverseOne(api, rec, sh, enc)
				serixgen.Mutations(enc, func(b []byte) { reverseOne(api, rec, sh, b) })
			}
		}
	}
	pr := &cli.PartResult{Engine: "I", Evaluations: rec.evals, Distinct: rec.distinct + rec.accepted, Exhaustive: exhaustive,
		Notes: []string{fmt.Sprintf("%d shapes in this shard; %d byte strings accepted by the validating decoder and re-encoded; %d skipped because of saturated timestamps", n, rec.accepted, rec.skipped)}}
	pr.Samples = rec.samples
	if len(pr.Samples) == 0 {
		pr.Samples = []any{fmt.Sprintf("%s: %d shapes, %d evaluations", what, n, rec.evals)}
	}
	var sigs []string
	for s := range rec.viol {
		sigs = append(sigs, s)
	}
	sort.Strings(sigs)
	for _, s := range sigs {
		pr.Violations = append(pr.Violations, rec.viol[s])
	}
	return pr
}

var _ = serix.NewAPI

func main() {
	parts := []*cli.Part{
		{Name: "forward", Run: func(c *cli.Ctx) *cli.PartResult { return run(c, "forward") }, Shards: 16, ShardsQuick: 8},
		{Name: "reverse-strings", Run: func(c *cli.Ctx) *cli.PartResult { return run(c, "reverse-strings") }, Shards: 16, ShardsQuick: 8},
		{Name: "reverse-mutations", Run: func(c *cli.Ctx) *cli.PartResult { return run(c, "reverse-mutations") }, Shards: 16, ShardsQuick: 8},
	}
	cli.Main(&cli.Property{
		ID: "C03", Level: "exploration", Parts: parts, QuickSecs: 60, ThoroughSecs: 900,
		Rule:        "forward: for every (shape, value, validation mode) of the C01 grammar that Encode accepts, the bytes are compared with an independent reference encoder written from the documented layout (LE numbers, 0/1 bools, prefix widths, uint8/uint32 type codes, uint32 optional marker, 32-byte LE uint256, ns timestamps, map entries sorted by key||value bytes, lexical ordering); reverse: every byte string of length <= 4 (thorough 6) over {00,01,02,7f,80,ff} and the complete single-byte mutation/truncation/extension neighbourhood of every valid encoding is fed to Decode with validation, and whenever it is accepted consuming n bytes the decoded value must re-encode (with validation) to exactly b[:n]; distinct_nontrivial = accepted values compared with the reference + accepted byte strings re-encoded",
		Assumptions: []string{"the reference encoder (props/serixgen) is the specification of the documented layout", "inputs whose wire timestamps lie outside the int64-nanosecond range (they decode to the saturated maximum) are excluded, as the statement does; a wire stamp inside the range that decodes to the maximum is reported"},
		NotReached:  []string{"byte strings longer than 6 that are not within one mutation of a valid encoding"},
	})
}
