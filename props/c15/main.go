// C15 — events, promises and notifiers deliver exactly the right calls.
package main

import (
	"context"
	"errors"
	"fmt"
	"strings"

	"github.com/iotaledger/hive.go/runtime/event"
	"github.com/iotaledger/hive.go/runtime/promise"
	"github.com/iotaledger/hive.go/runtime/valuenotifier"
	"github.com/iotaledger/hive.go/runtime/workerpool"

	"verif/engine/cli"
	"verif/engine/hist"
	"verif/engine/sched"
	"verif/vcontext"
	"verif/vrt"
)

// pos returns the log index of the first event kind/args match (or -1).
func calls(name string) (n int) {
	for _, ev := range vrt.E.Log {
		if ev.Kind == "hook" && ev.Args[0] == name {
			n++
		}
	}
	return
}

func hookFn(name string) func(int) {
	return func(arg int) { vrt.Observe("hook", name, arg) }
}

func scenarios() []*sched.Scenario {
	var out []*sched.Scenario
	add := func(name string, run func()) {
		heavy := strings.HasPrefix(name, "event/trigger-vs") || strings.Contains(name, "/hook") || strings.HasPrefix(name, "event/linkto-relink")
		out = append(out, &sched.Scenario{Name: name, Run: run, UnboundedThoroughOnly: heavy || name == "event/pooled-hook", Delay: name == "event/pooled-hook"})
	}

	add("event/trigger-vs-hook-unhook", func() {
		e := event.New1[int]()
		e.Hook(hookFn("A"))
		hb := e.Hook(hookFn("B"))
		var hc *event.Hook[func(int)]
		vrt.Par(
			func() { vrt.Observe("trigger.call", 1); e.Trigger(1); vrt.Observe("trigger.ret", 1) },
			func() {
				vrt.Observe("unhook.call", "B")
				hb.Unhook()
				vrt.Observe("unhook.ret", "B")
				vrt.Observe("hook.call", "C")
				hc = e.Hook(hookFn("C"))
				vrt.Observe("hook.ret", "C")
			},
			func() { vrt.Observe("trigger.call", 2); e.Trigger(2); vrt.Observe("trigger.ret", 2) },
		)
		_ = hc
		log := vrt.E.Log
		idx := func(kind string, arg any) int {
			for i, ev := range log {
				if ev.Kind == kind && ev.Args[0] == arg {
					return i
				}
			}
			return -1
		}
		count := func(name string, arg int) (n int) {
			for _, ev := range log {
				if ev.Kind == "hook" && ev.Args[0] == name && ev.Args[1] == arg {
					n++
				}
			}
			return
		}
		for _, t := range []int{1, 2} {
			tc, tr := idx("trigger.call", t), idx("trigger.ret", t)
			// A: attached before, never unhooked: exactly once
			if n := count("A", t); n != 1 {
				vrt.Fail("hook-call-count|always-attached", "hook A (attached before, never unhooked) was called %d times for Trigger(%d)", n, t)
			}
			// B: unhooked; exactly once if the unhook began after the trigger returned; 0 if it returned before the trigger began
			nb := count("B", t)
			switch {
			case idx("unhook.call", "B") > tr && nb != 1:
				vrt.Fail("hook-call-count|unhooked-later", "hook B was called %d times for Trigger(%d) that completed before Unhook began", nb, t)
			case idx("unhook.ret", "B") < tc && nb != 0:
				vrt.Fail("hook-call-count|unhooked-before", "hook B was called %d times for Trigger(%d) that began after Unhook returned", nb, t)
			case nb > 1:
				vrt.Fail("hook-call-count|duplicate", "hook B was called %d times for one trigger", nb)
			}
			nc := count("C", t)
			switch {
			case idx("hook.ret", "C") < tc && nc != 1:
				vrt.Fail("hook-call-count|attached-before", "hook C (attached before Trigger(%d) began) was called %d times", t, nc)
			case idx("hook.call", "C") > tr && nc != 0:
				vrt.Fail("hook-call-count|attached-after", "hook C (attached after Trigger(%d) returned) was called %d times", t, nc)
			case nc > 1:
				vrt.Fail("hook-call-count|duplicate", "hook C was called %d times for one trigger", nc)
			}
		}
		// synchronous hooks run in attachment order within one trigger: A before B before C
		for _, t := range []int{1, 2} {
			last := -1
			for _, name := range []string{"A", "B", "C"} {
				for i, ev := range log {
					if ev.Kind == "hook" && ev.Args[0] == name && ev.Args[1] == t {
						if i < last {
							vrt.Fail("hook-order", "hooks of Trigger(%d) did not run in attachment order", t)
						}
						last = i
					}
				}
			}
		}
	})

	for _, n := range []uint64{1, 2} {
		n := n
		add(fmt.Sprintf("event/max-trigger-count-%d/event", n), func() {
			e := event.New1[int](event.WithMaxTriggerCount(n))
			e.Hook(hookFn("A"))
			vrt.Par(func() { e.Trigger(1) }, func() { e.Trigger(2) }, func() { e.Trigger(3) })
			if got := calls("A"); got != int(n) {
				vrt.Fail("max-trigger-count|event", "event limited to %d triggers fired %d times for 3 concurrent triggers", n, got)
			}
		})
		add(fmt.Sprintf("event/max-trigger-count-%d/hook", n), func() {
			e := event.New1[int]()
			e.Hook(hookFn("A"), event.WithMaxTriggerCount(n))
			e.Hook(hookFn("B"))
			vrt.Par(func() { e.Trigger(1) }, func() { e.Trigger(2) }, func() { e.Trigger(3) })
			if got := calls("A"); got != int(n) {
				vrt.Fail("max-trigger-count|hook", "hook limited to %d triggers was called %d times for 3 concurrent triggers", n, got)
			}
			if got := calls("B"); got != 3 {
				vrt.Fail("hook-call-count|sibling-of-limited-hook", "unlimited hook B was called %d times for 3 triggers", got)
			}
		})
	}

	add("event/self-unhooking-hook-does-not-hide-later-hooks", func() {
		e := event.New1[int]()
		var ha *event.Hook[func(int)]
		ha = e.Hook(func(a int) { vrt.Observe("hook", "A", a); ha.Unhook() })
		e.Hook(hookFn("B"))
		e.Hook(hookFn("C"))
		e.Trigger(1)
		e.Trigger(2)
		if calls("A") != 1 || calls("B") != 2 || calls("C") != 2 {
			vrt.Fail("hook-call-count|self-unhook", "A/B/C were called %d/%d/%d times (expected 1/2/2)", calls("A"), calls("B"), calls("C"))
		}
	})

	add("event/hook-unhooks-its-successor", func() {
		e := event.New1[int]()
		var hb, hd *event.Hook[func(int)]
		e.Hook(func(a int) {
			vrt.Observe("hook", "A", a)
			hb.Unhook() // returned before B's turn: B is "not yet unhooked" no more
			hd.Unhook() // not the direct successor
		})
		hb = e.Hook(hookFn("B"))
		e.Hook(hookFn("C"))
		hd = e.Hook(hookFn("D"))
		e.Hook(hookFn("E"))
		e.Trigger(1)
		e.Trigger(2)
		if calls("A") != 2 || calls("B") != 0 || calls("C") != 2 || calls("D") != 0 || calls("E") != 2 {
			vrt.Fail("hook-call-count|unhooked-by-predecessor", "A/B/C/D/E were called %d/%d/%d/%d/%d times; A unhooks B and D during the first trigger (expected 2/0/2/0/2)", calls("A"), calls("B"), calls("C"), calls("D"), calls("E"))
		}
	})

	add("event/two-first-hooks-and-a-link-on-a-fresh-event", func() {
		e, linked := event.New1[int](), event.New1[int]()
		linked.Hook(hookFn("L"))
		vrt.Par(
			func() { e.Hook(hookFn("A")) },
			func() { e.Hook(hookFn("B")) },
			func() { linked.LinkTo(e) },
		)
		e.Trigger(1)
		if calls("A") != 1 || calls("B") != 1 || calls("L") != 1 {
			vrt.Fail("hook-call-count|first-hooks", "hooks A/B attached concurrently to a fresh event and the hook of an event linked to it were called %d/%d/%d times for one trigger", calls("A"), calls("B"), calls("L"))
		}
	})

	add("promise/callback-re-enters-its-event", func() {
		e := promise.NewEvent()
		n := &vrt.Counts{}
		var unsubSelf func()
		unsubSelf = e.OnTrigger(func() {
			n.Inc("first")
			if !e.WasTriggered() {
				n.Inc("not-triggered-inside")
			}
			e.OnTrigger(func() { n.Inc("nested") })
			unsubSelf()
		})
		e.OnTrigger(func() { n.Inc("second") })
		e.Trigger()
		if n.Get("first") != 1 || n.Get("second") != 1 || n.Get("nested") != 1 {
			vrt.Fail("promise-callback-count", "a callback that registers another callback, asks WasTriggered and unsubscribes itself: first/second/nested ran %d/%d/%d times", n.Get("first"), n.Get("second"), n.Get("nested"))
		}
		p1 := promise.NewEvent1[int]()
		got := 0
		p1.OnTrigger(func(v int) { p1.OnTrigger(func(w int) { got = v + w }) })
		p1.Trigger(4)
		if got != 8 {
			vrt.Fail("promise-callback-count", "Event1: a callback registering another one during Trigger: nested callback result %d, expected 8", got)
		}
	})

	add("event/linkto-relink-vs-triggers", func() {
		e1, e2, e3 := event.New1[int](), event.New1[int](), event.New1[int]()
		e2.Hook(hookFn("L"))
		e2.LinkTo(e1)
		vrt.Par(
			func() { vrt.Observe("relink.call"); e2.LinkTo(e3); vrt.Observe("relink.ret") },
			func() { vrt.Observe("t1.call"); e1.Trigger(1); vrt.Observe("t1.ret") },
			func() { vrt.Observe("t3.call"); e3.Trigger(3); vrt.Observe("t3.ret") },
		)
		// after re-linking: the former target no longer fires, the current one fires exactly once per trigger
		e1.Trigger(10)
		e3.Trigger(30)
		log := vrt.E.Log
		idx := func(kind string) int {
			for i, ev := range log {
				if ev.Kind == kind {
					return i
				}
			}
			return -1
		}
		count := func(arg int) (n int) {
			for _, ev := range log {
				if ev.Kind == "hook" && ev.Args[1] == arg {
					n++
				}
			}
			return
		}
		if count(10) != 0 {
			vrt.Fail("linkto|former-target-still-fires", "the event still fires for its former target after LinkTo returned (%d calls)", count(10))
		}
		if count(30) != 1 {
			vrt.Fail("linkto|current-target", "the event fired %d times for one trigger of its current target", count(30))
		}
		if idx("t1.ret") < idx("relink.call") && count(1) != 1 {
			vrt.Fail("linkto|old-target-before-relink", "trigger of the old target completed before re-linking began but fired %d times", count(1))
		}
		if idx("t1.call") > idx("relink.ret") && count(1) != 0 {
			vrt.Fail("linkto|former-target-still-fires", "trigger of the former target began after re-linking returned but fired %d times", count(1))
		}
		if idx("t3.call") > idx("relink.ret") && count(3) != 1 {
			vrt.Fail("linkto|current-target", "trigger of the new target began after re-linking returned but fired %d times", count(3))
		}
		if count(1) > 1 || count(3) > 1 {
			vrt.Fail("linkto|duplicate", "linked event fired %d/%d times for single triggers", count(1), count(3))
		}
	})

	add("event/concurrent-linkto", func() {
		e1, e2, e3 := event.New1[int](), event.New1[int](), event.New1[int]()
		e2.Hook(hookFn("L"))
		vrt.Par(func() { e2.LinkTo(e1) }, func() { e2.LinkTo(e3) })
		e2.LinkTo(nil)
		e1.Trigger(1)
		e3.Trigger(3)
		if n := calls("L"); n != 0 {
			vrt.Fail("linkto|former-target-still-fires", "after LinkTo(nil) the event still fired %d times for former targets", n)
		}
	})

	add("event/pooled-hook", func() {
		wp := workerpool.New("p", workerpool.WithWorkerCount(1)).Start()
		e := event.New1[int]()
		e.Hook(hookFn("P"), event.WithWorkerPool(wp))
		e.Hook(hookFn("S"))
		vrt.Par(func() { e.Trigger(1) }, func() { e.Trigger(2) })
		wp.PendingTasksCounter.WaitIsZero()
		if calls("P") != 2 || calls("S") != 2 {
			vrt.Fail("hook-call-count|pooled", "pooled hook ran %d times, synchronous hook %d times for 2 triggers (after the pool drained)", calls("P"), calls("S"))
		}
	})

	add("promise/event-trigger-vs-ontrigger", func() {
		e := promise.NewEvent()
		n := &vrt.Counts{}
		e.OnTrigger(func() { n.Inc("before") })
		vrt.Par(
			func() { e.Trigger() },
			func() { e.OnTrigger(func() { n.Inc("during") }) },
			func() { e.Trigger(); e.OnTrigger(func() { n.Inc("after") }) },
			func() {
				u := e.OnTrigger(func() { n.Inc("unsub") })
				u()
			},
		)
		vrt.Observe("final", n.String())
		if n.Get("before") != 1 || n.Get("during") != 1 || n.Get("after") != 1 || n.Get("unsub") > 1 {
			vrt.Fail("promise-callback-count", "callbacks registered before/during/after Trigger ran %d/%d/%d times (unsubscribed one %d)", n.Get("before"), n.Get("during"), n.Get("after"), n.Get("unsub"))
		}
		if !e.WasTriggered() {
			vrt.Fail("promise-not-triggered", "WasTriggered is false")
		}
	})

	add("promise/event1-value", func() {
		e := promise.NewEvent1[int]()
		var got []int
		vrt.Par(
			func() { e.Trigger(7) },
			func() { e.OnTrigger(func(v int) { got = append(got, v) }) },
			func() { e.Trigger(9); e.OnTrigger(func(v int) { got = append(got, v) }) },
		)
		vrt.Observe("final", fmt.Sprint(got))
		if len(got) != 2 || got[0] != got[1] || (got[0] != 7 && got[0] != 9) {
			vrt.Fail("promise-callback-count", "callbacks received %v: each must run once with the value of the one effective Trigger", got)
		}
	})

	add("valuenotifier/wait-vs-notify-vs-deregister", func() {
		nf := valuenotifier.New[int]()
		l := nf.Listener(1)
		var err error
		notified := false
		vrt.Par(
			func() { err = l.Wait(context.Background()) },
			func() { vrt.Observe("notify"); nf.Notify(1); notified = true },
		)
		if err != nil {
			vrt.Fail("notifier|missed-notify", "Wait returned %v although Notify(1) was called while the listener was registered", err)
		}
		_ = notified
	})

	add("valuenotifier/wait-vs-deregister", func() {
		nf := valuenotifier.New[int]()
		l := nf.Listener(1)
		var err error
		vrt.Par(
			func() { err = l.Wait(context.Background()) },
			func() { l.Deregister() },
		)
		vrt.Observe("wait", err == nil)
		if err == nil {
			vrt.Fail("notifier|success-without-notify", "Wait returned success although Notify was never called (the listener was deregistered concurrently)")
		}
	})

	add("valuenotifier/two-generations", func() {
		nf := valuenotifier.New[int]()
		l1 := nf.Listener(1)
		var e1, e2 error
		w1 := vrt.Spawn(func() { e1 = l1.Wait(context.Background()) })
		nf.Notify(1)
		l2 := nf.Listener(1)
		ctx, cancel := vcontext.WithCancel(context.Background())
		w2 := vrt.Spawn(func() { e2 = l2.Wait(ctx) })
		w1.Join()
		cancel()
		w2.Join()
		if e1 != nil {
			vrt.Fail("notifier|missed-notify", "first listener's Wait returned %v", e1)
		}
		if e2 == nil {
			vrt.Fail("notifier|success-without-notify", "a listener created after Notify(1) returned success although no Notify followed its creation")
		}
	})
	return out
}

// ---------------- valuenotifier sequential histories ----------------

type lst struct {
	l        *valuenotifier.Listener
	value    int
	notified bool // Notify(value) was called while registered
	dereg    bool
}

func notifierSystem() *hist.System {
	type op struct {
		kind string
		a    int
	}
	var ops []op
	var names []string
	for v := 1; v <= 2; v++ {
		ops = append(ops, op{"listener", v}, op{"notify", v})
		names = append(names, fmt.Sprintf("Listener(%d)", v), fmt.Sprintf("Notify(%d)", v))
	}
	for i := 0; i < 3; i++ {
		ops = append(ops, op{"wait-cancelled", i}, op{"wait-live", i}, op{"deregister", i})
		names = append(names, fmt.Sprintf("l%d.Wait(cancelled ctx)", i), fmt.Sprintf("l%d.Wait(live ctx)", i), fmt.Sprintf("l%d.Deregister", i))
	}
	return &hist.System{Name: "valuenotifier", Alphabet: names, Merge: false, MaxDepth: 6, New: func() hist.Instance {
		nf := valuenotifier.New[int]()
		var ls []*lst
		return &simple{
			enabled: func(i int) bool {
				o := ops[i]
				switch o.kind {
				case "listener":
					return len(ls) < 3
				case "notify":
					return true
				case "wait-live":
					// only when it cannot block: notified while registered, or already deregistered
					return o.a < len(ls) && (ls[o.a].notified || ls[o.a].dereg)
				}
				return o.a < len(ls)
			},
			apply: func(i int, check bool) string {
				o := ops[i]
				cls := "Notifier." + o.kind
				switch o.kind {
				case "listener":
					ls = append(ls, &lst{l: nf.Listener(o.a), value: o.a})
				case "notify":
					nf.Notify(o.a)
					for _, l := range ls {
						if l.value == o.a && !l.dereg {
							l.notified = true
						}
					}
				case "deregister":
					ls[o.a].l.Deregister()
					ls[o.a].dereg = true
				case "wait-cancelled", "wait-live":
					l := ls[o.a]
					ctx := context.Background()
					if o.kind == "wait-cancelled" {
						c, cancel := context.WithCancel(ctx)
						cancel()
						ctx = c
					}
					err := l.l.Wait(ctx)
					wasDereg, wasNotified := l.dereg, l.notified
					l.dereg = true
					if !check {
						return ""
					}
					if err == nil && !wasNotified {
						return fmt.Sprintf("%s|success-without-notify: Wait of listener %d (value %d) returned success but Notify(%d) was never called between its creation and its deregistration", cls, o.a, l.value, l.value)
					}
					if err == nil && wasDereg {
						return fmt.Sprintf("%s|success-after-deregister: Wait of the already deregistered listener %d returned success", cls, o.a)
					}
					if wasDereg && !errors.Is(err, valuenotifier.ErrListenerDeregistered) {
						return fmt.Sprintf("%s|error-identity: Wait of a deregistered listener returned %v", cls, err)
					}
					if o.kind == "wait-live" && !wasDereg && wasNotified && err != nil {
						return fmt.Sprintf("%s|missed-notify: Wait of listener %d returned %v although Notify(%d) was called while it was registered", cls, o.a, err, l.value)
					}
				}
				return ""
			},
			key: func() string { return "" },
		}
	}}
}

type simple struct {
	enabled func(i int) bool
	apply   func(i int, check bool) string
	key     func() string
}

func (s *simple) Enabled(i int) bool { return s.enabled(i) }
func (s *simple) Apply(i int) string { return s.apply(i, true) }
func (s *simple) Replay(i int)       { _ = s.apply(i, false) }
func (s *simple) Key() string        { return s.key() }

func main() {
	_ = strings.Join
	part := hist.Part("valuenotifier-histories", func(c *cli.Ctx) []*hist.System {
		s := notifierSystem()
		if c.Thorough() {
			s.MaxDepth = 7
		}
		return []*hist.System{s}
	})
	part.Shards, part.ShardsQuick = 4, 4
	cli.Main(&cli.Property{
		ID: "C15", Level: "model_checking", Scenarios: scenarios(), Parts: []*cli.Part{part},
		QuickBound: 2, ThoroughBound: 3, QuickUnbounded: true, ThoroughUnbounded: true, Cache: true, QuickSecs: 45, ThoroughSecs: 900,
		RaceHB: &cli.RaceHB{QuickBound: 1, ThoroughBound: 2},
		Rule:        "S: every interleaving (preemption bound b, then all interleavings with the state cache) of Trigger/Hook/Unhook/LinkTo callers on runtime events (incl. max-trigger-count on event and hook, a pooled hook on a 1-worker pool), of Trigger/OnTrigger/unsubscribe on promise events and of Wait/Notify/Deregister on a value notifier; call counts judged against the recorded call/return intervals (exactly once when attached before the trigger began and not unhooked before it returned, zero when unhooked before / attached after, otherwise 0 or 1). H: every sequential history up to depth 6 (thorough 7) of Listener/Notify/Wait/Deregister over 2 values and 3 listeners; distinct = distinct observation logs / histories",
		Assumptions: []string{"a Wait with a live context is only issued in the sequential histories when it cannot block"},
		NotReached:  []string{"Event2..Event9 (generated from the same template as Event1)", "more than 3 concurrent triggers"},
	})
}
