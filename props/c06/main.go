// C06 — TypedValue / TypedStore are transparent, error-faithful typed views.
package main

import (
	"errors"
	"fmt"
	"reflect"
	"sort"
	"strings"

	"github.com/iotaledger/hive.go/kvstore"
	"github.com/iotaledger/hive.go/kvstore/mapdb"

	"verif/engine/cli"
	"verif/engine/hist"
	"verif/engine/sched"
	"verif/vrt"
)

var errInjected = errors.New("injected fault")
var errCompute = errors.New("compute failed")

// faultCtl counts environment calls (store and codec) of the operation under test
// and makes call number failAt fail.
type faultCtl struct {
	calls  int
	failAt int
	fired  bool
	what   string
}

func (c *faultCtl) arm(k int) { c.calls, c.failAt, c.fired, c.what = 0, k, false, "" }

func (c *faultCtl) hit(what string) bool {
	c.calls++
	if c.failAt > 0 && c.calls == c.failAt {
		c.fired = true
		c.what = what
		return true
	}
	return false
}

type faultKV struct {
	kvstore.KVStore
	ctl *faultCtl
}

func (f *faultKV) Get(k kvstore.Key) (kvstore.Value, error) {
	if f.ctl.hit("kv.Get") {
		return nil, errInjected
	}
	return f.KVStore.Get(k)
}
func (f *faultKV) Has(k kvstore.Key) (bool, error) {
	if f.ctl.hit("kv.Has") {
		return false, errInjected
	}
	return f.KVStore.Has(k)
}
func (f *faultKV) Set(k kvstore.Key, v kvstore.Value) error {
	if f.ctl.hit("kv.Set") {
		return errInjected
	}
	return f.KVStore.Set(k, v)
}
func (f *faultKV) Delete(k kvstore.Key) error {
	if f.ctl.hit("kv.Delete") {
		return errInjected
	}
	return f.KVStore.Delete(k)
}
func (f *faultKV) Iterate(p kvstore.KeyPrefix, fn kvstore.IteratorKeyValueConsumerFunc, d ...kvstore.IterDirection) error {
	if f.ctl.hit("kv.Iterate") {
		return errInjected
	}
	return f.KVStore.Iterate(p, fn, d...)
}
func (f *faultKV) IterateKeys(p kvstore.KeyPrefix, fn kvstore.IteratorKeyConsumerFunc, d ...kvstore.IterDirection) error {
	if f.ctl.hit("kv.IterateKeys") {
		return errInjected
	}
	return f.KVStore.IterateKeys(p, fn, d...)
}

func encoder(ctl *faultCtl, what string) kvstore.ObjectToBytes[int] {
	return func(v int) ([]byte, error) {
		if ctl != nil && ctl.hit(what) {
			return []byte{0xee, 0xee}, errInjected // garbage together with the error
		}
		if v == 7 {
			return []byte{}, nil // a legal encoding of zero length: an empty stored value is still a stored value
		}
		return []byte{byte(v)}, nil
	}
}

func decoder(ctl *faultCtl, what string) kvstore.BytesToObject[int] {
	return func(b []byte) (int, int, error) {
		if ctl != nil && ctl.hit(what) {
			return 99, 0, errInjected
		}
		if len(b) == 0 {
			return 7, 0, nil
		}
		if len(b) != 1 {
			return 0, 0, fmt.Errorf("bad encoding %x", b)
		}
		return int(b[0]), 1, nil
	}
}

// rawVal decodes stored bytes with the reference codec (7 has the zero-length encoding); -1000 = not a valid encoding.
func rawVal(raw []byte) int {
	switch len(raw) {
	case 0:
		return 7
	case 1:
		if raw[0] != 7 {
			return int(raw[0])
		}
	}
	return -1000
}

// ---------------- TypedValue history system ----------------

type tvOp struct {
	kind  string // get has set delete compute reopen
	arg   int    // value for set; compute flavour 0:+1 1:const7 2:notchanged 3:error
	fault int
	name  string
}

func tvAlphabet(maxFault int) []tvOp {
	var ops []tvOp
	base := []tvOp{
		{kind: "get", name: "Get"}, {kind: "has", name: "Has"},
		{kind: "set", arg: 1, name: "Set(1)"}, {kind: "set", arg: 2, name: "Set(2)"},
		{kind: "delete", name: "Delete"},
		{kind: "compute", arg: 0, name: "Compute(+1)"}, {kind: "compute", arg: 1, name: "Compute(const7)"},
		{kind: "compute", arg: 2, name: "Compute(NotChanged)"}, {kind: "compute", arg: 3, name: "Compute(error)"},
	}
	for _, b := range base {
		for f := 0; f <= maxFault; f++ {
			o := b
			o.fault = f
			if f > 0 {
				o.name = fmt.Sprintf("%s!fault@%d", b.name, f)
			}
			ops = append(ops, o)
		}
	}
	ops = append(ops, tvOp{kind: "reopen", name: "Reopen"})
	return ops
}

type tvInst struct {
	ops     []tvOp
	base    kvstore.KVStore
	ctl     *faultCtl
	tv      *kvstore.TypedValue[int]
	present bool
	val     int
	check   bool
}

var tvKey = []byte{0x42}

func (in *tvInst) open() {
	in.tv = kvstore.NewTypedValue[int](&faultKV{in.base, in.ctl}, tvKey, encoder(in.ctl, "vToBytes"), decoder(in.ctl, "bytesToV"))
}

func newTV(ops []tvOp) *tvInst {
	in := &tvInst{ops: ops, base: mapdb.NewMapDB(), ctl: &faultCtl{}, check: true}
	in.open()
	return in
}

func (in *tvInst) Enabled(int) bool { return true }

func (in *tvInst) Replay(i int) {
	in.check = false
	defer func() { in.check = true }()
	_ = in.Apply(i)
}

func (in *tvInst) Apply(i int) string {
	o := in.ops[i]
	cls := strings.SplitN(o.name, "!", 2)[0]
	if o.fault > 0 {
		cls += "!fault"
	}
	in.ctl.arm(o.fault)
	var err error
	var got int
	var gotBool bool
	wantPresent, wantVal := in.present, in.val
	var wantRet int
	wantErr := ""
	switch o.kind {
	case "get":
		got, err = in.tv.Get()
		wantRet = in.val
		if !in.present {
			wantErr = "ErrKeyNotFound"
		}
	case "has":
		gotBool, err = in.tv.Has()
	case "set":
		err = in.tv.Set(o.arg)
		wantPresent, wantVal = true, o.arg
	case "delete":
		err = in.tv.Delete()
		wantPresent, wantVal = false, 0
	case "compute":
		cur, ex := in.val, in.present
		if !ex {
			cur = 0
		}
		var seenCur int
		var seenEx bool
		called := false
		got, err = in.tv.Compute(func(c int, e bool) (int, error) {
			called, seenCur, seenEx = true, c, e
			switch o.arg {
			case 0:
				return c + 1, nil
			case 1:
				return 7, nil
			case 2:
				return 55, kvstore.ErrTypedValueNotChanged
			}
			return 66, errCompute
		})
		if called && in.check && !in.ctl.fired && (seenCur != cur || seenEx != ex) {
			return fmt.Sprintf("%s|compute-input: the compute function was called with (%d,%v), the raw key holds (%d,%v)", cls, seenCur, seenEx, cur, ex)
		}
		switch o.arg {
		case 0:
			wantPresent, wantVal, wantRet = true, cur+1, cur+1
		case 1:
			wantPresent, wantVal, wantRet = true, 7, 7
		case 2:
			wantRet = cur
		case 3:
			wantErr = "compute"
		}
	case "reopen":
		in.open()
	}
	fired, what := in.ctl.fired, in.ctl.what
	in.ctl.arm(0)
	in.ctl.what = what
	if fired {
		// a failure must be reported and must leave store and cache unchanged
		wantPresent, wantVal = in.present, in.val
		if in.check && err == nil {
			return fmt.Sprintf("%s|fault-not-reported: %s failed inside %s but the call returned no error (result %d/%v)", cls, in.ctl.what, o.name, got, gotBool)
		}
	} else if in.check {
		switch wantErr {
		case "":
			if err != nil {
				return fmt.Sprintf("%s|unexpected-error: %v", cls, err)
			}
		case "ErrKeyNotFound":
			if !errors.Is(err, kvstore.ErrKeyNotFound) {
				return fmt.Sprintf("%s|error-identity: expected ErrKeyNotFound, got %v", cls, err)
			}
		case "compute":
			if !errors.Is(err, errCompute) {
				return fmt.Sprintf("%s|error-identity: expected the compute function's error, got %v", cls, err)
			}
		}
		if err == nil {
			switch o.kind {
			case "get", "compute":
				if got != wantRet {
					return fmt.Sprintf("%s|result: returned %d, the raw key under the codec gives %d", cls, got, wantRet)
				}
			case "has":
				if gotBool != in.present {
					return fmt.Sprintf("%s|result: Has returned %v, raw key present=%v", cls, gotBool, in.present)
				}
			}
		}
	}
	in.present, in.val = wantPresent, wantVal
	if !in.check {
		return ""
	}
	// the stored bytes are the encoding of the last successfully written value
	raw, rerr := in.base.Get(tvKey)
	if in.present {
		if rerr != nil || rawVal(raw) != in.val {
			return fmt.Sprintf("%s|stored-bytes: store holds %x (err %v), expected the encoding of %d", cls, raw, rerr, in.val)
		}
	} else if rerr == nil {
		return fmt.Sprintf("%s|stored-bytes: store holds %x, expected no entry", cls, raw)
	}
	return ""
}

// cacheDump reads the unexported cache fields of the TypedValue.
func cacheDump(tv any) string {
	v := reflect.ValueOf(tv).Elem()
	vc, hc := v.FieldByName("valueCached"), v.FieldByName("hasCached")
	s := "v:nil"
	if !vc.IsNil() {
		s = fmt.Sprintf("v:%d", vc.Elem().Int())
	}
	if hc.IsNil() {
		return s + ",h:nil"
	}
	return s + fmt.Sprintf(",h:%v", hc.Elem().Bool())
}

func (in *tvInst) Key() string {
	return fmt.Sprintf("%v/%d/%s", in.present, in.val, cacheDump(in.tv))
}

// probe system: after the history, the same TypedValue and a fresh one must agree with the model.
// It is folded into the alphabet as the non-faulted Get/Has operations and Reopen.

// ---------------- TypedStore history system ----------------

type tsOp struct {
	kind  string
	k, v  int
	back  bool
	stop  bool
	fault int
	name  string
}

func tsAlphabet(maxFault int) []tsOp {
	var base []tsOp
	for k := 1; k <= 2; k++ {
		base = append(base, tsOp{kind: "get", k: k, name: fmt.Sprintf("Get(%d)", k)}, tsOp{kind: "has", k: k, name: fmt.Sprintf("Has(%d)", k)},
			tsOp{kind: "delete", k: k, name: fmt.Sprintf("Delete(%d)", k)})
		for _, v := range []int{1, 7} { // 7 is the value whose encoding has zero length
			base = append(base, tsOp{kind: "set", k: k, v: v, name: fmt.Sprintf("Set(%d,%d)", k, v)})
		}
	}
	for _, back := range []bool{false, true} {
		for _, stop := range []bool{false, true} {
			base = append(base, tsOp{kind: "iterate", back: back, stop: stop, name: fmt.Sprintf("Iterate(back=%v,stop=%v)", back, stop)},
				tsOp{kind: "iteratekeys", back: back, stop: stop, name: fmt.Sprintf("IterateKeys(back=%v,stop=%v)", back, stop)})
		}
	}
	var ops []tsOp
	for _, b := range base {
		mf := maxFault
		if b.kind == "iterate" || b.kind == "iteratekeys" {
			mf = maxFault + 2
		}
		for f := 0; f <= mf; f++ {
			o := b
			o.fault = f
			if f > 0 {
				o.name = fmt.Sprintf("%s!fault@%d", b.name, f)
			}
			ops = append(ops, o)
		}
	}
	return ops
}

type tsInst struct {
	ops   []tsOp
	base  kvstore.KVStore
	ctl   *faultCtl
	ts    *kvstore.TypedStore[int, int]
	model map[int]int
	check bool
}

func newTS(ops []tsOp) *tsInst {
	in := &tsInst{ops: ops, base: mapdb.NewMapDB(), ctl: &faultCtl{}, model: map[int]int{}, check: true}
	in.ts = kvstore.NewTypedStore[int, int](&faultKV{in.base, in.ctl}, encoder(in.ctl, "keyToBytes"), decoder(in.ctl, "bytesToKey"), encoder(in.ctl, "valueToBytes"), decoder(in.ctl, "bytesToValue"))
	return in
}

func (in *tsInst) Enabled(int) bool { return true }
func (in *tsInst) Replay(i int) {
	in.check = false
	defer func() { in.check = true }()
	_ = in.Apply(i)
}

func (in *tsInst) Apply(i int) string {
	o := in.ops[i]
	cls := strings.SplitN(strings.SplitN(o.name, "!", 2)[0], "(", 2)[0]
	if o.fault > 0 {
		cls += "!fault"
	}
	in.ctl.arm(o.fault)
	var err error
	var got int
	var gotBool bool
	var gotPairs []string
	nm := map[int]int{}
	for k, v := range in.model {
		nm[k] = v
	}
	var dir []kvstore.IterDirection
	if o.back {
		dir = append(dir, kvstore.IterDirectionBackward)
	}
	switch o.kind {
	case "get":
		got, err = in.ts.Get(o.k)
	case "has":
		gotBool, err = in.ts.Has(o.k)
	case "set":
		err = in.ts.Set(o.k, o.v)
		nm[o.k] = o.v
	case "delete":
		err = in.ts.Delete(o.k)
		delete(nm, o.k)
	case "iterate":
		err = in.ts.Iterate(kvstore.EmptyPrefix, func(k, v int) bool {
			gotPairs = append(gotPairs, fmt.Sprintf("%d=%d", k, v))
			return !o.stop
		}, dir...)
	case "iteratekeys":
		err = in.ts.IterateKeys(kvstore.EmptyPrefix, func(k int) bool {
			gotPairs = append(gotPairs, fmt.Sprintf("%d", k))
			return !o.stop
		}, dir...)
	}
	fired, what := in.ctl.fired, in.ctl.what
	in.ctl.arm(0)
	in.ctl.what = what
	if fired {
		if in.check && err == nil {
			return fmt.Sprintf("%s|fault-not-reported: %s failed inside %s but the call returned no error", cls, in.ctl.what, o.name)
		}
	} else {
		in.model = nm
		if in.check {
			mv, present := in.model[o.k]
			switch o.kind {
			case "get":
				if present && (err != nil || got != mv) {
					return fmt.Sprintf("%s|result: Get(%d) = %d,%v expected %d", cls, o.k, got, err, mv)
				}
				if !present && !errors.Is(err, kvstore.ErrKeyNotFound) {
					return fmt.Sprintf("%s|error-identity: Get(%d) of a missing key returned %v", cls, o.k, err)
				}
			case "has":
				if err != nil || gotBool != present {
					return fmt.Sprintf("%s|result: Has(%d) = %v,%v expected %v", cls, o.k, gotBool, err, present)
				}
			case "set", "delete":
				if err != nil {
					return fmt.Sprintf("%s|unexpected-error: %v", cls, err)
				}
			case "iterate", "iteratekeys":
				var ks []int
				for k := range in.model {
					ks = append(ks, k)
				}
				sort.Ints(ks)
				if o.back {
					sort.Sort(sort.Reverse(sort.IntSlice(ks)))
				}
				var want []string
				for _, k := range ks {
					if o.kind == "iterate" {
						want = append(want, fmt.Sprintf("%d=%d", k, in.model[k]))
					} else {
						want = append(want, fmt.Sprintf("%d", k))
					}
					if o.stop {
						break
					}
				}
				if err != nil || fmt.Sprint(gotPairs) != fmt.Sprint(want) {
					return fmt.Sprintf("%s|result: %s gave %v,%v expected %v", cls, o.name, gotPairs, err, want)
				}
			}
		}
	}
	if !in.check {
		return ""
	}
	// raw contents
	n := 0
	var bad string
	_ = in.base.Iterate(kvstore.EmptyPrefix, func(k, v []byte) bool {
		n++
		if len(k) != 1 || in.model[int(k[0])] != rawVal(v) {
			bad = fmt.Sprintf("%x=%x", k, v)
		}
		return true
	})
	if bad != "" || n != len(in.model) {
		return fmt.Sprintf("%s|stored-bytes: raw store differs from the model %v (entries %d, bad %s)", cls, in.model, n, bad)
	}
	return ""
}

func (in *tsInst) Key() string { return fmt.Sprint(in.model) }

// ---------------- concurrent scenarios ----------------

func scenarios() []*sched.Scenario {
	mk := func(persist bool) (*kvstore.TypedValue[int], kvstore.KVStore) {
		st := mapdb.NewMapDB()
		if persist {
			if err := st.Set(tvKey, []byte{5}); err != nil {
				panic(err)
			}
		}
		return kvstore.NewTypedValue[int](st, tvKey, encoder(nil, ""), decoder(nil, "")), st
	}
	inc := func(c int, _ bool) (int, error) { return c + 1, nil }
	finalAgree := func(tv *kvstore.TypedValue[int], st kvstore.KVStore, allowed ...int) {
		raw, rerr := st.Get(tvKey)
		v, err := tv.Get()
		h, _ := tv.Has()
		fresh := kvstore.NewTypedValue[int](st, tvKey, encoder(nil, ""), decoder(nil, ""))
		fv, ferr := fresh.Get()
		vrt.Observe("final", raw, rerr == nil, v, err == nil, h, fv, ferr == nil)
		if (rerr == nil) != (err == nil) || (rerr == nil) != h || (rerr == nil) != (ferr == nil) {
			vrt.Fail("cache-incoherent|presence", "raw key present=%v but cached Get err=%v Has=%v fresh Get err=%v", rerr == nil, err, h, ferr)
			return
		}
		if rerr == nil && (rawVal(raw) != v || fv != v) {
			vrt.Fail("cache-incoherent|value", "raw key holds %x, cached Get returns %d, fresh Get %d", raw, v, fv)
			return
		}
		if len(allowed) > 0 {
			ok := false
			for _, a := range allowed {
				if (a < 0 && rerr != nil) || (rerr == nil && a == rawVal(raw)) {
					ok = true
				}
			}
			if !ok {
				vrt.Fail("lost-update|final-value", "final raw value %v (present=%v) is not the result of any serial order (allowed %v, -1 = deleted)", raw, rerr == nil, allowed)
			}
		}
	}
	var out []*sched.Scenario
	out = append(out, &sched.Scenario{Name: "compute-compute", Run: func() {
		tv, st := mk(false)
		vrt.Par(func() { _, _ = tv.Compute(inc) }, func() { _, _ = tv.Compute(inc) })
		finalAgree(tv, st, 2)
	}})
	out = append(out, &sched.Scenario{Name: "compute-compute-persisted-fresh", Run: func() {
		tv, st := mk(true)
		vrt.Par(func() { _, _ = tv.Compute(inc) }, func() { _, _ = tv.Compute(inc) }, func() { _, _ = tv.Has() })
		finalAgree(tv, st, 7)
	}})
	// the same races once the value is already cached (a fast path that trusts the cache must still be atomic)
	out = append(out, &sched.Scenario{Name: "cached/compute-compute", Run: func() {
		tv, st := mk(true)
		_, _ = tv.Get()
		vrt.Par(func() { _, _ = tv.Compute(inc) }, func() { _, _ = tv.Compute(inc) })
		finalAgree(tv, st, 7)
	}})
	out = append(out, &sched.Scenario{Name: "cached/compute-set", Run: func() {
		tv, st := mk(true)
		_, _ = tv.Get()
		vrt.Par(func() { _, _ = tv.Compute(inc) }, func() { _ = tv.Set(9) })
		finalAgree(tv, st, 9, 10)
	}})
	out = append(out, &sched.Scenario{Name: "cached/compute-delete-has", Run: func() {
		tv, st := mk(true)
		_, _ = tv.Has()
		_, _ = tv.Get()
		vrt.Par(func() { _, _ = tv.Compute(inc) }, func() { _ = tv.Delete() }, func() { _, _ = tv.Has() })
		finalAgree(tv, st, -1, 1)
	}})
	out = append(out, &sched.Scenario{Name: "compute-set-get", Run: func() {
		tv, st := mk(false)
		vrt.Par(
			func() { _, _ = tv.Compute(inc) },
			func() { _ = tv.Set(5) },
			func() {
				v, err := tv.Get()
				if err == nil && v != 1 && v != 5 && v != 6 {
					vrt.Fail("read-unwritten-value", "Get returned %d which no writer ever wrote", v)
				}
			},
		)
		finalAgree(tv, st, 5, 6)
	}})
	out = append(out, &sched.Scenario{Name: "delete-compute-has", Run: func() {
		tv, st := mk(true)
		vrt.Par(
			func() { _ = tv.Delete() },
			func() { _, _ = tv.Compute(inc) },
			func() { _, _ = tv.Has() },
		)
		finalAgree(tv, st, -1, 1)
	}})
	out = append(out, &sched.Scenario{Name: "get-miss-vs-delete", Run: func() {
		tv, st := mk(true)
		vrt.Par(
			func() {
				v, err := tv.Get()
				if err == nil && v != 5 {
					vrt.Fail("read-unwritten-value", "Get returned %d", v)
				}
			},
			func() { _ = tv.Delete() },
		)
		finalAgree(tv, st, -1)
	}})
	out = append(out, &sched.Scenario{Name: "get-miss-vs-set-vs-has", Run: func() {
		tv, st := mk(true)
		vrt.Par(
			func() { _, _ = tv.Get() },
			func() { _ = tv.Set(9) },
			func() { _, _ = tv.Has() },
		)
		finalAgree(tv, st, 9)
	}})
	out = append(out, &sched.Scenario{Name: "has-miss-vs-delete-vs-set", Run: func() {
		tv, st := mk(true)
		vrt.Par(
			func() { _, _ = tv.Has() },
			func() { _ = tv.Delete() },
			func() { _ = tv.Set(3) },
		)
		finalAgree(tv, st, -1, 3)
	}})
	return out
}

func main() {
	tvPart := hist.Part("typedvalue-faults", func(c *cli.Ctx) []*hist.System {
		ops := tvAlphabet(4)
		var names []string
		for _, o := range ops {
			names = append(names, o.name)
		}
		d := 5
		if c.Thorough() {
			d = 6
		}
		return []*hist.System{
			{Name: "typedvalue", Alphabet: names, Merge: true, MaxDepth: 12, New: func() hist.Instance { return newTV(ops) }},
			{Name: "typedvalue-nomerge", Alphabet: names, Merge: false, MaxDepth: d - 1, New: func() hist.Instance { return newTV(ops) }},
		}
	})
	tvPart.Shards, tvPart.ShardsQuick = 8, 4
	tsPart := hist.Part("typedstore-faults", func(c *cli.Ctx) []*hist.System {
		ops := tsAlphabet(3)
		var names []string
		for _, o := range ops {
			names = append(names, o.name)
		}
		return []*hist.System{{Name: "typedstore", Alphabet: names, Merge: true, MaxDepth: 10, New: func() hist.Instance { return newTS(ops) }}}
	})
	cli.Main(&cli.Property{
		ID: "C06", Level: "fault_enumeration", Scenarios: scenarios(), Parts: []*cli.Part{tvPart, tsPart},
		QuickBound: 2, ThoroughBound: 3, QuickUnbounded: true, ThoroughUnbounded: true, Cache: true, QuickSecs: 45, ThoroughSecs: 600,
		RaceHB: &cli.RaceHB{QuickBound: 1, ThoroughBound: 2},
		Rule: "H: all histories of TypedValue Get/Has/Set/Delete/Compute(4 compute functions)/Reopen and TypedStore Get/Has/Set/Delete/Iterate/IterateKeys where every operation is additionally run with a fault injected at each position (1st..4th store or codec call of that operation); states merged on (model, real cache contents) to a fixpoint plus an unmerged depth-bounded pass; S: all interleavings of 2-3 concurrent Compute/Set/Delete/Get/Has callers on one TypedValue; distinct = distinct states / observation logs",
		Assumptions: []string{
			"the TypedValue under test is the only writer of its key (the cache is not promised to be coherent otherwise)",
			"injected faults are generic errors (not ErrKeyNotFound); a codec that fails returns garbage bytes together with the error",
		},
		NotReached: []string{"pairs of faults inside one operation", "TypedStore under concurrency (it holds no state of its own)"},
	})
}
