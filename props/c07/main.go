// C07 — Sequence numbers are never reused across crashes and restarts.
package main

import (
	"encoding/json"
	"errors"
	"fmt"
	"math"
	"sort"
	"strings"

	"github.com/iotaledger/hive.go/kvstore"
	"github.com/iotaledger/hive.go/kvstore/mapdb"

	"verif/engine/cli"
	"verif/engine/hist"
	"verif/engine/sched"
	"verif/vrt"
)

type crashSentinel struct{}

// crashKV stops the "process" before or after the k-th store call of the current operation.
type crashKV struct {
	kvstore.KVStore
	calls  int
	at     int
	after  bool
	fired  bool
	failAt int // this store call of the current operation returns errInjected instead of being performed
}

var errInjected = errors.New("injected store failure")

func (c *crashKV) arm(at int, after bool) {
	c.calls, c.at, c.after, c.fired, c.failAt = 0, at, after, false, 0
}

func (c *crashKV) Get(k kvstore.Key) (kvstore.Value, error) {
	c.calls++
	if c.failAt == c.calls {
		c.fired = true
		return nil, errInjected
	}
	if c.at == c.calls {
		c.fired = true
		if !c.after {
			panic(crashSentinel{})
		}
		_, _ = c.KVStore.Get(k)
		panic(crashSentinel{})
	}
	return c.KVStore.Get(k)
}

func (c *crashKV) Set(k kvstore.Key, v kvstore.Value) error {
	c.calls++
	if c.failAt == c.calls {
		c.fired = true
		return errInjected
	}
	if c.at == c.calls {
		c.fired = true
		if !c.after {
			panic(crashSentinel{})
		}
		_ = c.KVStore.Set(k, v)
		panic(crashSentinel{})
	}
	return c.KVStore.Set(k, v)
}

type sop struct {
	kind     string // next release restart
	interval uint64
	crashAt  int
	after    bool
	failAt   int
	name     string
}

func alphabet() []sop {
	ops := []sop{{kind: "next", name: "Next"}, {kind: "release", name: "Release"}}
	for i := uint64(1); i <= 3; i++ {
		ops = append(ops, sop{kind: "restart", interval: i, name: fmt.Sprintf("Restart(%d)", i)})
	}
	for _, after := range []bool{false, true} {
		w := "before"
		if after {
			w = "after"
		}
		for k := 1; k <= 2; k++ {
			ops = append(ops, sop{kind: "next", crashAt: k, after: after, name: fmt.Sprintf("Next!crash-%s-store-call-%d", w, k)})
		}
		ops = append(ops, sop{kind: "release", crashAt: 1, after: after, name: fmt.Sprintf("Release!crash-%s-store-call-1", w)})
	}
	// the store fails (returns an error) instead of the process stopping: the object stays in use
	for k := 1; k <= 2; k++ {
		ops = append(ops, sop{kind: "next", failAt: k, name: fmt.Sprintf("Next!fail-store-call-%d", k)})
	}
	ops = append(ops, sop{kind: "release", failAt: 1, name: "Release!fail-store-call-1"})
	return ops
}

type inst struct {
	ops      []sop
	store    *crashKV
	seq      *kvstore.Sequence
	interval uint64
	released bool // the live object was cleanly released and has not handed out numbers since
	crashed  bool // the live object is gone; only Restart is possible
	last     int64
	budget   uint64
	check    bool
}

var seqKey = []byte("seq")

func newInst(ops []sop) *inst {
	in := &inst{ops: ops, store: &crashKV{KVStore: mapdb.NewMapDB()}, last: -1, check: true}
	in.start(2)
	return in
}

func (in *inst) start(interval uint64) {
	s, err := kvstore.NewSequence(in.store, seqKey, interval)
	if err != nil {
		panic(err)
	}
	in.seq, in.interval, in.released, in.crashed = s, interval, false, false
}

func (in *inst) Enabled(i int) bool {
	if in.crashed {
		return in.ops[i].kind == "restart"
	}
	return true
}

func (in *inst) Replay(i int) {
	in.check = false
	defer func() { in.check = true }()
	_ = in.Apply(i)
}

// run executes f and reports whether the crash sentinel stopped it.
func run(f func()) (crashed bool) {
	defer func() {
		if r := recover(); r != nil {
			if _, ok := r.(crashSentinel); ok {
				crashed = true
				return
			}
			panic(r)
		}
	}()
	f()
	return false
}

func (in *inst) Apply(i int) string {
	o := in.ops[i]
	cls := strings.SplitN(o.name, "!", 2)[0]
	switch o.kind {
	case "restart":
		if !in.released {
			// the previous object is abandoned without a clean Release: it may waste one interval
			in.budget += in.interval
		}
		in.start(o.interval)
		return ""
	case "next":
		in.store.arm(o.crashAt, o.after)
		in.store.failAt = o.failAt
		var n uint64
		var err error
		crashed := run(func() { n, err = in.seq.Next() })
		failed := in.store.fired && o.failAt != 0
		in.store.arm(0, false)
		if crashed {
			in.crashed = true
			in.released = false
			return ""
		}
		if failed {
			if err == nil {
				return fmt.Sprintf("%s|store-error-swallowed: the store call failed but Next returned %d without an error", cls, n)
			}
			// no number was handed out; the statement bounds the waste of crashes only, so a failed lease may cost one interval
			in.released = false
			in.budget += in.interval
			return ""
		}
		if err != nil {
			return fmt.Sprintf("%s|unexpected-error: %v", cls, err)
		}
		in.released = false
		if !in.check {
			in.last, in.budget = int64(n), 0
			return ""
		}
		if int64(n) <= in.last {
			return fmt.Sprintf("%s|number-reused: Next returned %d after %d had already been handed out", cls, n, in.last)
		}
		if gap := uint64(int64(n) - in.last - 1); gap > in.budget {
			return fmt.Sprintf("%s|numbers-wasted: Next returned %d after %d: %d numbers skipped, but the crashes/abandonments in between account for at most %d", cls, n, in.last, gap, in.budget)
		}
		in.last, in.budget = int64(n), 0
	case "release":
		in.store.arm(o.crashAt, o.after)
		in.store.failAt = o.failAt
		var err error
		crashed := run(func() { err = in.seq.Release() })
		fired, after := in.store.fired, o.after
		failed := in.store.fired && o.failAt != 0
		in.store.arm(0, false)
		if failed {
			if err == nil {
				return fmt.Sprintf("%s|store-error-swallowed: the store call failed but Release returned no error", cls)
			}
			in.released = false
			return ""
		}
		if crashed {
			in.crashed = true
			in.released = fired && after // the store write happened: as good as a clean release
			return ""
		}
		if err != nil {
			return fmt.Sprintf("%s|unexpected-error: %v", cls, err)
		}
		in.released = true
	}
	return ""
}

func (in *inst) Key() string { return "" }

func scenarios() []*sched.Scenario {
	var out []*sched.Scenario
	for _, cfg := range []struct {
		threads  int
		interval uint64
		thor     bool
	}{{2, 1, false}, {2, 2, false}, {3, 1, false}, {3, 2, true}, {2, 3, true}} {
		cfg := cfg
		out = append(out, &sched.Scenario{
			Name: fmt.Sprintf("concurrent-next/t%d-i%d", cfg.threads, cfg.interval), ThoroughOnly: cfg.thor,
			Run: func() {
				st := mapdb.NewMapDB()
				seq, _ := kvstore.NewSequence(st, seqKey, cfg.interval)
				res := make([][]uint64, cfg.threads)
				var fs []func()
				for t := 0; t < cfg.threads; t++ {
					t := t
					fs = append(fs, func() {
						for j := 0; j < 2; j++ {
							n, err := seq.Next()
							if err != nil {
								panic(err)
							}
							res[t] = append(res[t], n)
						}
					})
				}
				vrt.Par(fs...)
				var all []uint64
				for t, r := range res {
					if r[1] <= r[0] {
						vrt.Fail("not-increasing-per-caller", "thread %d received %v", t, r)
					}
					all = append(all, r...)
				}
				sort.Slice(all, func(i, j int) bool { return all[i] < all[j] })
				vrt.Observe("numbers", fmt.Sprint(all))
				for i := 1; i < len(all); i++ {
					if all[i] == all[i-1] {
						vrt.Fail("number-reused|concurrent", "number %d was handed out twice: %v", all[i], res)
					}
				}
				// a restart after a clean release continues right after the highest number
				if err := seq.Release(); err != nil {
					panic(err)
				}
				seq2, _ := kvstore.NewSequence(st, seqKey, cfg.interval)
				n, _ := seq2.Next()
				if n != all[len(all)-1]+1 {
					vrt.Fail("restart-after-release", "after a clean Release the next object returned %d, highest number before was %d", n, all[len(all)-1])
				}
			},
		})
	}
	// Release racing with Next callers on the same object: whatever Release persists must not be below a number that
	// has been handed out; afterwards the same object and a restarted one continue above everything seen so far
	for _, interval := range []uint64{1, 2} {
		interval := interval
		out = append(out, &sched.Scenario{
			Name: fmt.Sprintf("release-vs-next/i%d", interval),
			Run: func() {
				st := mapdb.NewMapDB()
				seq, _ := kvstore.NewSequence(st, seqKey, interval)
				var seen []uint64
				take := func(s *kvstore.Sequence) {
					n, err := s.Next()
					if err != nil {
						panic(err)
					}
					seen = append(seen, n)
				}
				take(seq)
				vrt.Par(
					func() { take(seq); take(seq) },
					func() {
						if err := seq.Release(); err != nil {
							panic(err)
						}
					},
				)
				take(seq) // the released object leases again
				seq2, _ := kvstore.NewSequence(st, seqKey, 3)
				take(seq2) // the old object is abandoned here: a restarted one must not repeat anything either
				vrt.Observe("numbers", fmt.Sprint(seen))
				dup := map[uint64]bool{}
				for _, n := range seen {
					if dup[n] {
						vrt.Fail("number-reused|release-vs-next", "number %d was handed out twice: %v", n, seen)
					}
					dup[n] = true
				}
			},
		})
	}
	return out
}

// hugeIntervalPart: intervals near the top of the uint64 range are legal (the repository's own test uses
// MaxUint64); every history of Next / Release+Restart(4) up to depth 5 must still hand out 0,1,2,... without gaps.
func hugeIntervalPart() *cli.Part {
	return &cli.Part{Name: "huge-intervals", Run: func(c *cli.Ctx) *cli.PartResult {
		pr := &cli.PartResult{Engine: "H", Exhaustive: true}
		seenViol := map[string]bool{}
		for _, interval := range []uint64{math.MaxUint64, 3 << 62, math.MaxInt64 + 1, math.MaxInt64} {
			var rec func(hist []int)
			rec = func(hist []int) {
				pr.Transitions++
				st := mapdb.NewMapDB()
				seq, _ := kvstore.NewSequence(st, seqKey, interval)
				want := uint64(0)
				var names []string
				for _, op := range hist {
					if op == 0 {
						names = append(names, "Next")
						n, err := seq.Next()
						if err != nil || n != want {
							sig := "huge-intervals|Next|wrong-number"
							if !seenViol[sig] {
								seenViol[sig] = true
								raw, _ := json.Marshal(map[string]any{"interval": interval, "history": names})
								pr.Violations = append(pr.Violations, &cli.Violation{Part: "huge-intervals", Engine: "H", Signature: sig,
									Message: fmt.Sprintf("interval %d, history %v: Next returned (%d, %v), the numbers handed out so far are 0..%d and nothing crashed, so %d is due", interval, names, n, err, int64(want)-1, want), Replay: raw})
							}
							return
						}
						want++
					} else {
						names = append(names, "Release;Restart(4)")
						if err := seq.Release(); err != nil {
							panic(err)
						}
						seq, _ = kvstore.NewSequence(st, seqKey, 4)
					}
				}
				pr.Traces++
				if len(hist) == 5 {
					return
				}
				rec(append(append([]int{}, hist...), 0))
				rec(append(append([]int{}, hist...), 1))
			}
			rec(nil)
		}
		pr.States, pr.Evaluations, pr.Distinct = pr.Traces, pr.Transitions, pr.Traces
		pr.Samples = []any{"interval 18446744073709551615: Next, Next, Release;Restart(4), Next -> 0, 1, 2"}
		return pr
	}}
}

// handoverPart: two Sequence objects on one key that take turns through clean Releases (an object is only used while
// the other one holds no lease); every history of A.Next / A.Release / B.Next / B.Release up to depth 8: the numbers
// handed out are 0, 1, 2, ... whichever object serves them.
func handoverPart() *cli.Part {
	return &cli.Part{Name: "handover", Run: func(c *cli.Ctx) *cli.PartResult {
		pr := &cli.PartResult{Engine: "H", Exhaustive: true}
		names := []string{"A.Next", "A.Release", "B.Next", "B.Release"}
		reported := false
		for _, intervals := range [][2]uint64{{1, 1}, {2, 3}, {3, 1}} {
			var rec func(hist []int)
			rec = func(hist []int) {
				pr.Transitions++
				st := mapdb.NewMapDB()
				objs := [2]*kvstore.Sequence{}
				for i := range objs {
					objs[i], _ = kvstore.NewSequence(st, seqKey, intervals[i])
				}
				holds := [2]bool{} // the object may hold a lease (used since its last Release)
				want := uint64(0)
				ok := true
				for _, op := range hist {
					o, isNext := op/2, op%2 == 0
					if isNext {
						if holds[1-o] {
							ok = false // not a clean hand-over: outside this part
							break
						}
						n, err := objs[o].Next()
						holds[o] = true
						if (err != nil || n != want) && !reported {
							reported = true
							var hn []string
							for _, h := range hist {
								hn = append(hn, names[h])
							}
							raw, _ := json.Marshal(map[string]any{"intervals": intervals, "history": hn})
							pr.Violations = append(pr.Violations, &cli.Violation{Part: "handover", Engine: "H", Signature: "handover|Next|wrong-number",
								Message: fmt.Sprintf("intervals A=%d B=%d, history %v: Next returned (%d, %v); 0..%d were handed out and every hand-over was a clean Release, so %d is due", intervals[0], intervals[1], hn, n, err, int64(want)-1, want), Replay: raw})
						}
						if err != nil || n != want {
							return
						}
						want++
					} else {
						if err := objs[o].Release(); err != nil {
							panic(err)
						}
						holds[o] = false
					}
				}
				if !ok {
					return
				}
				pr.Traces++
				if len(hist) == 8 {
					return
				}
				for op := 0; op < 4; op++ {
					rec(append(append([]int{}, hist...), op))
				}
			}
			rec(nil)
		}
		pr.States, pr.Evaluations, pr.Distinct = pr.Traces, pr.Transitions, pr.Traces
		pr.Samples = []any{"A.Next, A.Next, A.Release, B.Next, B.Release, A.Next -> 0, 1, 2, 3"}
		return pr
	}}
}

func main() {
	ops := alphabet()
	var names []string
	for _, o := range ops {
		names = append(names, o.name)
	}
	part := hist.Part("crash-histories", func(c *cli.Ctx) []*hist.System {
		d := 7
		if c.Thorough() {
			d = 8
		}
		return []*hist.System{{Name: "sequence", Alphabet: names, Merge: false, MaxDepth: d, New: func() hist.Instance { return newInst(ops) }}}
	})
	part.Shards, part.ShardsQuick = 11, 11
	cli.Main(&cli.Property{
		ID: "C07", Level: "fault_enumeration", Scenarios: scenarios(), Parts: []*cli.Part{part, hugeIntervalPart(), handoverPart()},
		QuickBound: 2, ThoroughBound: 3, QuickUnbounded: true, ThoroughUnbounded: true, Cache: true, ReleasePoints: true, QuickSecs: 45, ThoroughSecs: 600,
		RaceHB:      &cli.RaceHB{QuickBound: 1, ThoroughBound: 2},
		Rule:        "H: every history up to depth 7 (thorough 8) over Next, Release, Restart(interval 1..3) in which every Next/Release is additionally run with the process stopping before or after its 1st/2nd store call (the object is then abandoned and only Restart is possible) and with its 1st/2nd store call failing (the object stays in use); oracle: returned numbers strictly increase over the life of the store and the gap between consecutive numbers is at most the sum of the intervals of the objects crashed/abandoned without Release in between (0 after clean Releases). S: all interleavings of 2-3 threads x 2 Next calls on one Sequence; distinct = distinct histories / observation logs",
		Assumptions: []string{"one Sequence object per key holds a lease at a time (crash histories: an abandoned object is never used again; hand-over part: two objects take turns through clean Releases)", "store calls do not fail other than by the process stopping"},
		NotReached:  []string{"intervals above 3"},
	})
}
