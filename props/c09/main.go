// C09 — authenticated map/set: contents, content-only root, faithful reopen.
package main

import (
	"crypto/sha256"
	"fmt"
	"sort"
	"strings"
	"sync"

	"github.com/iotaledger/hive.go/ads"
	"github.com/iotaledger/hive.go/kvstore"
	"github.com/iotaledger/hive.go/kvstore/mapdb"

	"verif/engine/cli"
	"verif/engine/hist"
	"verif/engine/sched"
	"verif/vrt"
)

type ident [32]byte

func idToBytes(i ident) ([]byte, error) { return i[:], nil }
func bytesToID(b []byte) (ident, int, error) {
	var i ident
	if len(b) < 32 {
		return i, 0, fmt.Errorf("short identifier")
	}
	copy(i[:], b)
	return i, 32, nil
}
func strToBytes(s string) ([]byte, error)      { return []byte(s), nil }
func bytesToStr(b []byte) (string, int, error) { return string(b), len(b), nil }

// keys: four short keys, two of which share the first 20 bits of their SHA-256 path, and one a proper prefix of another
var keys = func() []string {
	// two keys whose SHA-256 paths share the first 20 bits (a birthday search over a few thousand candidates)
	first := map[uint32]string{}
	var pair []string
	for i := 0; len(pair) == 0; i++ {
		k := fmt.Sprintf("k%d", i)
		h := sha256.Sum256([]byte(k))
		p := uint32(h[0])<<12 | uint32(h[1])<<4 | uint32(h[2])>>4
		if o, ok := first[p]; ok {
			pair = []string{o, k}
		}
		first[p] = k
	}
	return append(pair, "x", "xy") // "x" is a proper prefix of "xy" (variable-length keys)
}()

var values = []string{"", "a", "b"}

// store abstraction over the two flavours
type amap interface {
	Set(k, v string) error
	Get(k string) (string, bool, error)
	Has(k string) (bool, error)
	Delete(k string) (bool, error)
	Stream(func(k, v string) error) error
	Commit() error
	Root() ident
	Size() int
	WasRestoredFromStorage() bool
}

type mapFl struct {
	ads.Map[ident, string, string]
}

type setFl struct {
	s ads.Set[ident, string]
}

func (f setFl) Set(k, _ string) error { return f.s.Add(k) }
func (f setFl) Get(k string) (string, bool, error) {
	h, err := f.s.Has(k)
	return "", h, err
}
func (f setFl) Has(k string) (bool, error)    { return f.s.Has(k) }
func (f setFl) Delete(k string) (bool, error) { return f.s.Delete(k) }
func (f setFl) Stream(cb func(k, v string) error) error {
	return f.s.Stream(func(k string) error { return cb(k, "") })
}
func (f setFl) Commit() error                { return f.s.Commit() }
func (f setFl) Root() ident                  { return f.s.Root() }
func (f setFl) Size() int                    { return f.s.Size() }
func (f setFl) WasRestoredFromStorage() bool { return f.s.WasRestoredFromStorage() }

func open(store kvstore.KVStore, set bool) amap {
	if set {
		return setFl{ads.NewSet[ident](store, idToBytes, bytesToID, strToBytes, bytesToStr)}
	}
	return mapFl{ads.NewMap[ident](store, idToBytes, bytesToID, strToBytes, bytesToStr, strToBytes, bytesToStr)}
}

type op struct {
	kind string
	k, v string
	name string
}

func alphabet(set bool) []op {
	var ops []op
	for _, k := range keys {
		if set {
			ops = append(ops, op{"set", k, "", fmt.Sprintf("Add(%s)", k)})
		} else {
			for _, v := range values {
				ops = append(ops, op{"set", k, v, fmt.Sprintf("Set(%s,%q)", k, v)})
			}
		}
		ops = append(ops, op{"delete", k, "", fmt.Sprintf("Delete(%s)", k)})
	}
	return append(ops, op{kind: "commit", name: "Commit"}, op{kind: "reopen", name: "Reopen"})
}

// canonical roots: contents -> root of a fresh instance built in sorted key order (differential oracle)
var (
	canonMu sync.Mutex
	canon   = map[string]ident{}
	rootOf  = map[ident]string{}
)

func contentsKey(m map[string]string) string {
	var ks []string
	for k := range m {
		ks = append(ks, k)
	}
	sort.Strings(ks)
	var b strings.Builder
	for _, k := range ks {
		fmt.Fprintf(&b, "%s=%q;", k, m[k])
	}
	return b.String()
}

func canonicalRoot(m map[string]string, set bool) ident {
	ck := fmt.Sprint(set) + contentsKey(m)
	canonMu.Lock()
	defer canonMu.Unlock()
	if r, ok := canon[ck]; ok {
		return r
	}
	a := open(mapdb.NewMapDB(), set)
	var ks []string
	for k := range m {
		ks = append(ks, k)
	}
	sort.Strings(ks)
	for _, k := range ks {
		if err := a.Set(k, m[k]); err != nil {
			panic(err)
		}
	}
	r := a.Root()
	canon[ck] = r
	return r
}

type inst struct {
	ops       []op
	set       bool
	store     kvstore.KVStore
	a         amap
	model     map[string]string
	committed bool // a Commit happened at some point
	clean     bool // no change since the last Commit (or pristine)
	check     bool
	// shared: the map lives in realm 'A' of a database whose realm 'B' holds a sibling map with fixed, committed
	// contents; neither may see the other
	sibling      amap
	siblingModel map[string]string
	siblingStore kvstore.KVStore
}

func newInst(ops []op, set bool, shared ...bool) *inst {
	if len(shared) > 0 && shared[0] {
		db := mapdb.NewMapDB()
		stA, errA := db.WithExtendedRealm([]byte{'A'})
		stB, errB := db.WithExtendedRealm([]byte{'B'})
		if errA != nil || errB != nil {
			panic(fmt.Sprint(errA, errB))
		}
		sib := open(stB, set)
		sm := map[string]string{keys[2]: "", keys[0]: ""}
		if !set {
			sm = map[string]string{keys[2]: "s", keys[0]: "t"}
		}
		for k, v := range sm {
			if err := sib.Set(k, v); err != nil {
				panic(err)
			}
		}
		if err := sib.Commit(); err != nil {
			panic(err)
		}
		return &inst{ops: ops, set: set, store: stA, a: open(stA, set), model: map[string]string{}, clean: true, check: true, sibling: sib, siblingModel: sm, siblingStore: stB}
	}
	st := mapdb.NewMapDB()
	return &inst{ops: ops, set: set, store: st, a: open(st, set), model: map[string]string{}, clean: true, check: true}
}

func (in *inst) Enabled(i int) bool {
	if in.ops[i].kind == "reopen" {
		return in.clean
	}
	return true
}

func (in *inst) Replay(i int) {
	in.check = false
	defer func() { in.check = true }()
	_ = in.Apply(i)
}

func (in *inst) Key() string { return "" }

func (in *inst) Apply(i int) string {
	o := in.ops[i]
	cls := strings.SplitN(o.name, "(", 2)[0]
	switch o.kind {
	case "set":
		if err := in.a.Set(o.k, o.v); err != nil {
			return fmt.Sprintf("%s|error: %v", cls, err)
		}
		in.model[o.k] = o.v
		in.clean = false
	case "delete":
		d, err := in.a.Delete(o.k)
		_, present := in.model[o.k]
		if err != nil {
			return fmt.Sprintf("%s|error: %v", cls, err)
		}
		if in.check && d != present {
			return fmt.Sprintf("%s|result: Delete(%s) reported %v, the key was present=%v", cls, o.k, d, present)
		}
		delete(in.model, o.k)
		in.clean = false
	case "commit":
		if err := in.a.Commit(); err != nil {
			return fmt.Sprintf("%s|error: %v", cls, err)
		}
		in.committed, in.clean = true, true
	case "reopen":
		before := in.a.Root()
		in.a = open(in.store, in.set)
		if in.check {
			if r := in.a.Root(); r != before {
				return fmt.Sprintf("%s|root: reopened instance has root %x, before reopening %x", cls, r[:4], before[:4])
			}
			if w := in.a.WasRestoredFromStorage(); w != in.committed {
				return fmt.Sprintf("%s|was-restored: WasRestoredFromStorage=%v after reopen, a Commit happened before=%v", cls, w, in.committed)
			}
		}
	}
	if !in.check {
		return ""
	}
	return in.probe(cls)
}

func (in *inst) probe(cls string) string {
	if in.sibling != nil {
		// the sibling map (also through a freshly opened instance over its realm) still holds exactly its own contents
		for _, sib := range []amap{in.sibling, open(in.siblingStore, in.set)} {
			got := map[string]string{}
			if err := sib.Stream(func(k, v string) error { got[k] = v; return nil }); err != nil {
				return fmt.Sprintf("%s|sibling-stream-error: %v", cls, err)
			}
			if contentsKey(got) != contentsKey(in.siblingModel) || sib.Size() != len(in.siblingModel) {
				return fmt.Sprintf("%s|sibling-disturbed: the map in the sibling realm streams %s (size %d), it was committed with %s and never touched", cls, contentsKey(got), sib.Size(), contentsKey(in.siblingModel))
			}
			for k, v := range in.siblingModel {
				if gv, ex, err := sib.Get(k); err != nil || !ex || gv != v {
					return fmt.Sprintf("%s|sibling-disturbed: Get(%s) on the map in the sibling realm gives (%q,%v,%v), committed value %q", cls, k, gv, ex, err, v)
				}
			}
		}
	}
	a := in.a
	if a.Size() != len(in.model) {
		return fmt.Sprintf("%s|size: Size %d, model has %d entries %s", cls, a.Size(), len(in.model), contentsKey(in.model))
	}
	for _, k := range keys {
		mv, present := in.model[k]
		h, err := a.Has(k)
		if err != nil || h != present {
			return fmt.Sprintf("%s|has: Has(%s)=%v,%v, model present=%v", cls, k, h, err, present)
		}
		v, ex, err := a.Get(k)
		if err != nil || ex != present || (present && v != mv) {
			return fmt.Sprintf("%s|get: Get(%s)=(%q,%v,%v), model (%q,%v)", cls, k, v, ex, err, mv, present)
		}
	}
	got := map[string]string{}
	if err := a.Stream(func(k, v string) error { got[k] = v; return nil }); err != nil {
		return fmt.Sprintf("%s|stream-error: %v", cls, err)
	}
	if contentsKey(got) != contentsKey(in.model) {
		return fmt.Sprintf("%s|stream: Stream gives %s, model %s", cls, contentsKey(got), contentsKey(in.model))
	}
	// the root depends on the contents alone
	r := a.Root()
	if want := canonicalRoot(in.model, in.set); r != want {
		return fmt.Sprintf("%s|root-depends-on-history: root %x differs from the root %x of a fresh instance holding the same contents %s", cls, r[:4], want[:4], contentsKey(in.model))
	}
	canonMu.Lock()
	ck := fmt.Sprint(in.set) + contentsKey(in.model)
	other, seen := rootOf[r]
	rootOf[r] = ck
	canonMu.Unlock()
	if seen && other != ck {
		return fmt.Sprintf("%s|root-collision: contents %s and %s have the same root", cls, other, ck)
	}
	return ""
}

// concurrent callers of one authenticated map (it carries a mutex and is used from several goroutines): readers
// running side by side with each other and with a writer must see committed contents and must not race
func concurrentScenarios() []*sched.Scenario {
	var out []*sched.Scenario
	for _, set := range []bool{false, true} {
		set := set
		name := "map"
		if set {
			name = "set"
		}
		out = append(out, &sched.Scenario{Name: "concurrent/" + name + "/readers-vs-writer", Run: func() {
			a := open(mapdb.NewMapDB(), set)
			val := func(k string) string {
				if set {
					return ""
				}
				return "v" + k
			}
			for _, k := range keys[:3] {
				if err := a.Set(k, val(k)); err != nil {
					panic(err)
				}
			}
			if err := a.Commit(); err != nil {
				panic(err)
			}
			read := func(k string) func() {
				return func() {
					h, err := a.Has(k)
					v, ex, err2 := a.Get(k)
					if err != nil || err2 != nil || !h || !ex || v != val(k) {
						vrt.Fail("concurrent-read", "key %s is present throughout, a reader got Has=(%v,%v) Get=(%q,%v,%v)", k, h, err, v, ex, err2)
					}
					_ = a.Size()
				}
			}
			vrt.Par(read(keys[0]), read(keys[1]), func() {
				if err := a.Set(keys[3], val(keys[3])); err != nil {
					panic(err)
				}
				_, _ = a.Delete(keys[2])
			})
			if a.Size() != 3 {
				vrt.Fail("concurrent-size", "3 keys, one added and one deleted concurrently with readers: Size is %d", a.Size())
			}
		}})
		// Stream against a writer: what is streamed is the contents before or after each of the writer's operations,
		// never a pair that did not exist (a key with somebody else's or nobody's value)
		out = append(out, &sched.Scenario{Name: "concurrent/" + name + "/stream-vs-writer", Run: func() {
			a := open(mapdb.NewMapDB(), set)
			val := func(k string) string {
				if set {
					return ""
				}
				return "v" + k
			}
			for _, k := range keys[:3] {
				if err := a.Set(k, val(k)); err != nil {
					panic(err)
				}
			}
			got := map[string]string{}
			vrt.Par(func() {
				if err := a.Stream(func(k, v string) error {
					got[k] = v
					vrt.Yield()
					return nil
				}); err != nil {
					panic(err)
				}
			}, func() {
				_, _ = a.Delete(keys[0])
				_, _ = a.Delete(keys[2])
			})
			vrt.Observe("streamed", contentsKey(got))
			for k, v := range got {
				if v != val(k) {
					vrt.Fail("concurrent-stream", "Stream reported key %s with value %q; its only value ever was %q", k, v, val(k))
				}
			}
			if _, ok := got[keys[1]]; !ok {
				vrt.Fail("concurrent-stream", "key %s is present throughout but Stream did not report it (%s)", keys[1], contentsKey(got))
			}
			// the writer deletes keys[0] before keys[2]: a snapshot cannot contain keys[0] without keys[2]
			if _, has0 := got[keys[0]]; has0 {
				if _, has2 := got[keys[2]]; !has2 {
					vrt.Fail("concurrent-stream", "Stream reported %s, a set of keys that never existed together (the writer deletes %s before %s)", contentsKey(got), keys[0], keys[2])
				}
			}
		}})
	}
	return out
}

func main() {
	var parts []*cli.Part
	for _, set := range []bool{false, true} {
		set := set
		name := "map"
		if set {
			name = "set"
		}
		ops := alphabet(set)
		var names []string
		for _, o := range ops {
			names = append(names, o.name)
		}
		p := hist.Part("ads-"+name, func(c *cli.Ctx) []*hist.System {
			d := 5
			if set {
				d = 6
			}
			if c.Thorough() {
				d++
			}
			return []*hist.System{
				{Name: "ads-" + name, Alphabet: names, Merge: false, MaxDepth: d, New: func() hist.Instance { return newInst(ops, set) }},
				{Name: "ads-" + name + "/shared-db", Alphabet: names, Merge: false, MaxDepth: d - 1, New: func() hist.Instance { return newInst(ops, set, true) }},
			}
		})
		p.Shards, p.ShardsQuick = len(ops), len(ops)
		if p.Shards > 16 {
			p.Shards, p.ShardsQuick = 16, 16
		}
		parts = append(parts, p)
	}
	scs := concurrentScenarios()
	cli.Main(&cli.Property{
		Scenarios: scs, QuickBound: 2, ThoroughBound: 3, QuickUnbounded: false, ThoroughUnbounded: true, Cache: true,
		RaceHB: &cli.RaceHB{QuickBound: 1, ThoroughBound: 2},
		ID:     "C09", Level: "model_checking", Parts: parts, QuickSecs: 60, ThoroughSecs: 900,
		Rule:        "every history up to depth 5/6 (map/set; thorough +1) of Set/Add (4 keys, two sharing the first byte of their SHA-256 path; values empty/a/b), Delete, Commit and Reopen (only in a clean state) on the real authenticated map/set over mapdb; after every step Get/Has of every key, Size, Stream and Root are compared with a plain map model, the root is compared with the root of a fresh instance built from the same contents in canonical order (content-only root), distinct contents must have distinct roots, and after Reopen root/size/contents and WasRestoredFromStorage must be unchanged/correct; distinct = distinct histories",
		Assumptions: []string{"Reopen is only exercised directly after a Commit or on a pristine store (the statement promises faithful reopen after a Commit, not crash consistency of uncommitted changes)"},
		NotReached:  []string{"more than 4 keys", "store faults underneath the trie"},
	})
}
