// C10 — ds.List behaves exactly like container/list.
package main

import (
	"container/list"
	"fmt"
	"strings"

	"github.com/iotaledger/hive.go/ds"

	"verif/engine/cli"
	"verif/engine/hist"
	"verif/engine/sched"
	"verif/vrt"
)

type opKind int

const (
	kPushFront opKind = iota
	kPushBack
	kInsertBefore
	kInsertAfter
	kMoveToFront
	kMoveToBack
	kMoveBefore
	kMoveAfter
	kRemove
	kPushBackList
	kPushFrontList
	kInit
)

type op struct {
	k     opKind
	l     int // list index
	h, h2 int // handle indices
	other int // other list index
	name  string
}

func alphabet(nLists, maxH int, fullB bool) []op {
	var ops []op
	for l := 0; l < nLists; l++ {
		if l > 0 && !fullB {
			ops = append(ops, op{k: kPushBack, l: l, name: fmt.Sprintf("L%d.PushBack", l)})
			continue
		}
		ops = append(ops, op{k: kPushFront, l: l, name: fmt.Sprintf("L%d.PushFront", l)}, op{k: kPushBack, l: l, name: fmt.Sprintf("L%d.PushBack", l)})
		for h := 0; h < maxH; h++ {
			ops = append(ops,
				op{k: kInsertBefore, l: l, h: h, name: fmt.Sprintf("L%d.InsertBefore(h%d)", l, h)},
				op{k: kInsertAfter, l: l, h: h, name: fmt.Sprintf("L%d.InsertAfter(h%d)", l, h)},
				op{k: kMoveToFront, l: l, h: h, name: fmt.Sprintf("L%d.MoveToFront(h%d)", l, h)},
				op{k: kMoveToBack, l: l, h: h, name: fmt.Sprintf("L%d.MoveToBack(h%d)", l, h)},
				op{k: kRemove, l: l, h: h, name: fmt.Sprintf("L%d.Remove(h%d)", l, h)},
			)
			for h2 := 0; h2 < maxH; h2++ {
				ops = append(ops,
					op{k: kMoveBefore, l: l, h: h, h2: h2, name: fmt.Sprintf("L%d.MoveBefore(h%d,h%d)", l, h, h2)},
					op{k: kMoveAfter, l: l, h: h, h2: h2, name: fmt.Sprintf("L%d.MoveAfter(h%d,h%d)", l, h, h2)},
				)
			}
		}
		for o := 0; o < nLists; o++ {
			ops = append(ops,
				op{k: kPushBackList, l: l, other: o, name: fmt.Sprintf("L%d.PushBackList(L%d)", l, o)},
				op{k: kPushFrontList, l: l, other: o, name: fmt.Sprintf("L%d.PushFrontList(L%d)", l, o)},
			)
		}
		ops = append(ops, op{k: kInit, l: l, name: fmt.Sprintf("L%d.Init", l)})
	}
	return ops
}

type inst struct {
	ops     []op
	maxH    int
	real    []ds.List[int]
	model   []*list.List
	rh      []ds.ListElement[int] // handle -> real element
	mh      []*list.Element       // handle -> model element
	retired []bool
	owner   []int // list the handle was created in
	rIdx    map[ds.ListElement[int]]int
	mIdx    map[*list.Element]int
}

func newInst(ops []op, nLists, maxH int, lockFree bool) *inst {
	in := &inst{ops: ops, maxH: maxH, rIdx: map[ds.ListElement[int]]int{}, mIdx: map[*list.Element]int{}}
	for i := 0; i < nLists; i++ {
		in.real = append(in.real, ds.NewList[int](lockFree))
		in.model = append(in.model, list.New())
	}
	return in
}

func (in *inst) Enabled(i int) bool {
	o := in.ops[i]
	n := len(in.rh)
	ok := func(h int) bool { return h < n && !in.retired[h] }
	switch o.k {
	case kPushFront, kPushBack:
		return n < in.maxH
	case kInsertBefore, kInsertAfter:
		return ok(o.h) && n < in.maxH
	case kMoveToFront, kMoveToBack, kRemove:
		return ok(o.h)
	case kMoveBefore, kMoveAfter:
		return ok(o.h) && ok(o.h2)
	case kPushBackList, kPushFrontList:
		return n+in.model[o.other].Len() <= in.maxH
	}
	return true
}

func (in *inst) register(l int) {
	// register elements that are not known yet, in list order, on both sides
	re := in.real[l].Front()
	for me := in.model[l].Front(); me != nil; me = me.Next() {
		if _, known := in.mIdx[me]; !known {
			idx := len(in.mh)
			in.mh = append(in.mh, me)
			in.mIdx[me] = idx
			in.rh = append(in.rh, re)
			if re != nil {
				in.rIdx[re] = idx
			}
			in.retired = append(in.retired, false)
			in.owner = append(in.owner, l)
		}
		if re != nil {
			re = re.Next()
		}
	}
}

func (in *inst) ridx(e ds.ListElement[int]) int {
	if e == nil {
		return -1
	}
	if i, ok := in.rIdx[e]; ok {
		return i
	}
	return -2
}

func (in *inst) midx(e *list.Element) int {
	if e == nil {
		return -1
	}
	if i, ok := in.mIdx[e]; ok {
		return i
	}
	return -2
}

func (in *inst) Apply(i int) string {
	o := in.ops[i]
	r, m := in.real[o.l], in.model[o.l]
	v := len(in.rh) // next value
	cls := strings.SplitN(o.name, ".", 2)[1]
	if p := strings.Index(cls, "("); p >= 0 {
		cls = cls[:p]
	}
	switch o.k {
	case kPushFront:
		r.PushFront(v)
		m.PushFront(v)
	case kPushBack:
		r.PushBack(v)
		m.PushBack(v)
	case kInsertBefore:
		re := r.InsertBefore(v, in.rh[o.h])
		me := m.InsertBefore(v, in.mh[o.h])
		if (re == nil) != (me == nil) {
			return fmt.Sprintf("%s|result-nilness: real returned nil=%v, container/list nil=%v", cls, re == nil, me == nil)
		}
	case kInsertAfter:
		re := r.InsertAfter(v, in.rh[o.h])
		me := m.InsertAfter(v, in.mh[o.h])
		if (re == nil) != (me == nil) {
			return fmt.Sprintf("%s|result-nilness: real returned nil=%v, container/list nil=%v", cls, re == nil, me == nil)
		}
	case kMoveToFront:
		r.MoveToFront(in.rh[o.h])
		m.MoveToFront(in.mh[o.h])
	case kMoveToBack:
		r.MoveToBack(in.rh[o.h])
		m.MoveToBack(in.mh[o.h])
	case kMoveBefore:
		r.MoveBefore(in.rh[o.h], in.rh[o.h2])
		m.MoveBefore(in.mh[o.h], in.mh[o.h2])
	case kMoveAfter:
		r.MoveAfter(in.rh[o.h], in.rh[o.h2])
		m.MoveAfter(in.mh[o.h], in.mh[o.h2])
	case kRemove:
		rv := r.Remove(in.rh[o.h])
		mv := m.Remove(in.mh[o.h]).(int)
		if rv != mv {
			return fmt.Sprintf("%s|result: real returned %d, container/list %d", cls, rv, mv)
		}
	case kPushBackList:
		r.PushBackList(in.real[o.other])
		m.PushBackList(in.model[o.other])
	case kPushFrontList:
		r.PushFrontList(in.real[o.other])
		m.PushFrontList(in.model[o.other])
	case kInit:
		r.Init()
		m.Init()
		for h := range in.rh {
			if in.owner[h] == o.l {
				in.retired[h] = true
			}
		}
	}
	in.register(o.l)
	return in.compare(cls)
}

func (in *inst) compare(cls string) string {
	for l := range in.real {
		r, m := in.real[l], in.model[l]
		var mv []int
		for e := m.Front(); e != nil; e = e.Next() {
			mv = append(mv, e.Value.(int))
		}
		// a chain that does not end (an element linked to itself or to an earlier one) would make every bulk operation
		// below spin forever: walk it by hand with a bound first
		limit := len(mv) + len(in.rh) + 4
		n := 0
		for e := r.Front(); e != nil; e = e.Next() {
			if n++; n > limit {
				return fmt.Sprintf("%s|cycle: the forward chain of L%d does not end after %d elements, container/list has %v", cls, l, limit, mv)
			}
		}
		n = 0
		for e := r.Back(); e != nil; e = e.Prev() {
			if n++; n > limit {
				return fmt.Sprintf("%s|cycle: the backward chain of L%d does not end after %d elements, container/list has %v", cls, l, limit, mv)
			}
		}
		if rv := r.Values(); fmt.Sprint(rv) != fmt.Sprint(append([]int{}, mv...)) {
			return fmt.Sprintf("%s|order: L%d is %v, container/list has %v", cls, l, rv, mv)
		}
		var rr, mr []int
		r.RangeReverse(func(v int) { rr = append(rr, v) })
		for e := m.Back(); e != nil; e = e.Prev() {
			mr = append(mr, e.Value.(int))
		}
		if fmt.Sprint(rr) != fmt.Sprint(mr) {
			return fmt.Sprintf("%s|reverse-order: L%d backwards is %v, container/list has %v", cls, l, rr, mr)
		}
		var fe []int
		_ = r.ForEach(func(v int) error { fe = append(fe, v); return nil })
		if fmt.Sprint(fe) != fmt.Sprint(append([]int{}, mv...)) {
			return fmt.Sprintf("%s|foreach: L%d ForEach gives %v, container/list has %v", cls, l, fe, mv)
		}
		if r.Len() != m.Len() {
			return fmt.Sprintf("%s|len: L%d Len is %d, container/list %d", cls, l, r.Len(), m.Len())
		}
		if a, b := in.ridx(r.Front()), in.midx(m.Front()); a != b {
			return fmt.Sprintf("%s|front: L%d Front is h%d, container/list h%d", cls, l, a, b)
		}
		if a, b := in.ridx(r.Back()), in.midx(m.Back()); a != b {
			return fmt.Sprintf("%s|back: L%d Back is h%d, container/list h%d", cls, l, a, b)
		}
	}
	for h := range in.rh {
		if in.retired[h] {
			continue
		}
		re, me := in.rh[h], in.mh[h]
		if a, b := in.ridx(re.Prev()), in.midx(me.Prev()); a != b {
			return fmt.Sprintf("%s|prev: h%d.Prev is h%d, container/list h%d", cls, h, a, b)
		}
		if a, b := in.ridx(re.Next()), in.midx(me.Next()); a != b {
			return fmt.Sprintf("%s|next: h%d.Next is h%d, container/list h%d", cls, h, a, b)
		}
		if a, b := re.Value(), me.Value.(int); a != b {
			return fmt.Sprintf("%s|value: h%d.Value is %d, container/list %d", cls, h, a, b)
		}
	}
	return ""
}

func (in *inst) Key() string {
	var b strings.Builder
	for l := range in.model {
		for e := in.model[l].Front(); e != nil; e = e.Next() {
			fmt.Fprintf(&b, "%d,", in.mIdx[e])
		}
		b.WriteString("|")
	}
	for h := range in.mh {
		// membership of every handle (which list it is in according to the model is visible through Prev/Next only; keep removed/retired flags)
		fmt.Fprintf(&b, "%v%d;", in.retired[h], in.owner[h])
	}
	return b.String()
}

func systems(c *cli.Ctx) []*hist.System {
	var out []*hist.System
	maxH := 5
	if c.Thorough() {
		maxH = 6
	}
	for _, lockFree := range []bool{true, false} {
		lockFree := lockFree
		fl := "threadsafe"
		if lockFree {
			fl = "lockfree"
		}
		ops := alphabet(2, maxH, false)
		var names []string
		for _, o := range ops {
			names = append(names, o.name)
		}
		out = append(out, &hist.System{
			Name: "list/" + fl, Alphabet: names, Merge: true, MaxDepth: 16,
			New: func() hist.Instance { return newInst(ops, 2, maxH, lockFree) },
		})
		// depth-bounded search without merging, full alphabet on both lists (hidden state cannot hide behind the key)
		ops2 := alphabet(2, 3, true)
		var names2 []string
		for _, o := range ops2 {
			names2 = append(names2, o.name)
		}
		d := 4
		if c.Thorough() {
			d = 5
		}
		out = append(out, &hist.System{
			Name: "list-nomerge/" + fl, Alphabet: names2, Merge: false, MaxDepth: d,
			New: func() hist.Instance { return newInst(ops2, 2, 3, lockFree) },
		})
	}
	return out
}

// concurrent callers of the thread-safe flavour: every method must take effect atomically, so whatever the
// interleaving the list stays a well-formed ring holding exactly the elements a sequential execution would leave
func concurrentScenarios() []*sched.Scenario {
	wellFormed := func(l ds.List[int], want map[int]int) {
		var fwd, bwd []int
		n := 0
		for e := l.Front(); e != nil && n < 20; e = e.Next() {
			fwd = append(fwd, e.Value())
			n++
		}
		n = 0
		for e := l.Back(); e != nil && n < 20; e = e.Prev() {
			bwd = append(bwd, e.Value())
			n++
		}
		vrt.Observe("final", fmt.Sprint(fwd))
		got := map[int]int{}
		for _, v := range fwd {
			got[v]++
		}
		ok := len(fwd) == len(bwd) && len(fwd) == l.Len() && fmt.Sprint(got) == fmt.Sprint(want)
		for i := range fwd {
			if ok && bwd[len(bwd)-1-i] != fwd[i] {
				ok = false
			}
		}
		if !ok {
			vrt.Fail("list-corrupted", "after concurrent calls the list reads %v forwards and %v backwards with Len %d; expected the elements %v, each direction the reverse of the other", fwd, bwd, l.Len(), want)
		}
	}
	mk := func() (ds.List[int], []ds.ListElement[int]) {
		l := ds.NewList[int]()
		var hs []ds.ListElement[int]
		for i := 1; i <= 4; i++ {
			hs = append(hs, l.PushBack(i))
		}
		return l, hs
	}
	all := map[int]int{1: 1, 2: 1, 3: 1, 4: 1}
	return []*sched.Scenario{
		{Name: "threadsafe/movetofront-vs-movetoback", Run: func() {
			l, hs := mk()
			vrt.Par(func() { l.MoveToFront(hs[2]) }, func() { l.MoveToBack(hs[1]) })
			wellFormed(l, all)
		}},
		{Name: "threadsafe/2xmovetofront-vs-traversal", UnboundedThoroughOnly: true, Run: func() {
			l, hs := mk()
			vrt.Par(
				func() { l.MoveToFront(hs[3]) },
				func() { l.MoveToFront(hs[2]) },
				func() {
					n := 0
					for e := l.Front(); e != nil && n < 20; e = e.Next() {
						n++
					}
				},
			)
			wellFormed(l, all)
		}},
		{Name: "threadsafe/movebefore-vs-remove-vs-pushfront", UnboundedThoroughOnly: true, Run: func() {
			l, hs := mk()
			vrt.Par(func() { l.MoveBefore(hs[3], hs[0]) }, func() { l.Remove(hs[1]) }, func() { l.PushFront(5) })
			wellFormed(l, map[int]int{1: 1, 3: 1, 4: 1, 5: 1})
		}},
		{Name: "threadsafe/2xremove-same-handle-vs-reader", Run: func() {
			l, hs := mk()
			vrt.Par(
				func() { l.Remove(hs[1]) },
				func() { l.Remove(hs[1]) },
				func() { _ = l.Len(); _ = l.Front() },
			)
			wellFormed(l, map[int]int{1: 1, 3: 1, 4: 1})
		}},
		{Name: "threadsafe/insertafter-vs-moveafter", Run: func() {
			l, hs := mk()
			vrt.Par(func() { l.InsertAfter(6, hs[1]) }, func() { l.MoveAfter(hs[0], hs[2]) })
			wellFormed(l, map[int]int{1: 1, 2: 1, 3: 1, 4: 1, 6: 1})
		}},
	}
}

func main() {
	var parts []*cli.Part
	for i, name := range []string{"list/lockfree", "list-nomerge/lockfree", "list/threadsafe", "list-nomerge/threadsafe"} {
		i := i
		parts = append(parts, hist.Part(name, func(c *cli.Ctx) []*hist.System { return systems(c)[i : i+1] }))
	}
	for _, p := range parts {
		if strings.Contains(p.Name, "nomerge") {
			p.Shards = 8
			p.ShardsQuick = 4
		}
	}
	cli.Main(&cli.Property{
		ID: "C10", Level: "model_checking", Parts: parts, Scenarios: concurrentScenarios(),
		QuickBound: 2, ThoroughBound: 3, QuickUnbounded: true, ThoroughUnbounded: true, Cache: true,
		RaceHB:    &cli.RaceHB{QuickBound: 1, ThoroughBound: 2},
		QuickSecs: 50, ThoroughSecs: 600,
		Rule: "explicit-state search over all histories of List operations with all handle arguments (live, removed, foreign) against container/list driven by the same operations; states merged on the canonical model state (fixpoint under the handle bound) plus a depth-bounded search without merging; distinct = distinct states / histories",
		Assumptions: []string{
			"container/list is the reference; handles created before an Init of their list are retired because container/list itself is undefined for them",
			"state merging on the model state is sound because every step compares the complete observable state of the real lists and all handles with the model",
		},
		NotReached: []string{"lists with more than 5 handles", "concurrent use of the thread-safe flavour beyond four two- and three-thread scenarios (concurrency is not part of the statement)"},
	})
}
