package main

import (
	"bytes"
	"encoding/json"
	"fmt"
	"io"
	"sort"

	"github.com/iotaledger/hive.go/serializer/v2"
	"github.com/iotaledger/hive.go/serializer/v2/stream"

	"verif/engine/cli"
)

// chunkReader delivers data in the given chunk sizes (a composition of len(data)).
type chunkReader struct {
	data    []byte
	chunks  []int
	pos, ci int
	eofLast bool // return (k, io.EOF) together with the last chunk
}

func (r *chunkReader) Read(p []byte) (int, error) {
	if r.pos >= len(r.data) {
		return 0, io.EOF
	}
	n := len(r.data) - r.pos
	if r.ci < len(r.chunks) && r.chunks[r.ci] < n {
		n = r.chunks[r.ci]
	}
	if n > len(p) {
		// the caller's buffer is smaller than the chunk: deliver what fits and keep the rest of the chunk
		r.chunks[r.ci] -= len(p)
		n = len(p)
	} else {
		r.ci++
	}
	copy(p, r.data[r.pos:r.pos+n])
	r.pos += n
	if r.eofLast && r.pos == len(r.data) {
		return n, io.EOF
	}
	return n, nil
}

// compositions calls f with every composition of n (2^(n-1) of them) up to maxN, otherwise with the 1- and 2-cut splittings and byte-at-a-time.
func compositions(n, maxN int, f func([]int)) (complete bool) {
	if n == 0 {
		f(nil)
		return true
	}
	if n <= maxN {
		for mask := 0; mask < 1<<(n-1); mask++ {
			var c []int
			run := 1
			for i := 0; i < n-1; i++ {
				if mask&(1<<i) != 0 {
					c = append(c, run)
					run = 1
				} else {
					run++
				}
			}
			f(append(c, run))
		}
		return true
	}
	f([]int{n})
	ones := make([]int, n)
	for i := range ones {
		ones[i] = 1
	}
	f(ones)
	for a := 1; a < n; a++ {
		f([]int{a, n - a})
		for b := a + 1; b < n; b += 1 + n/16 {
			f([]int{a, b - a, n - b})
		}
	}
	return false
}

type streamCase struct {
	name  string
	write func(w io.WriteSeeker) error
	read  func(r io.Reader) (string, error) // canonical result
	want  string
	// prefill: the writer already holds this many bytes and is positioned at its start (a record rewritten in place)
	prefill int
}

func lenTypes() map[string]serializer.SeriLengthPrefixType {
	return map[string]serializer.SeriLengthPrefixType{
		"u8": serializer.SeriLengthPrefixTypeAsByte, "u16": serializer.SeriLengthPrefixTypeAsUint16,
		"u32": serializer.SeriLengthPrefixTypeAsUint32, "u64": serializer.SeriLengthPrefixTypeAsUint64,
	}
}

func numCase[T interface {
	~bool | ~uint8 | ~uint16 | ~uint32 | ~uint64 | ~int8 | ~int16 | ~int32 | ~int64 | ~[32]byte
}](name string, v T) streamCase {
	return streamCase{name: "Write/Read[" + name + "]", want: fmt.Sprint(v),
		write: func(w io.WriteSeeker) error { return stream.Write(w, v) },
		read: func(r io.Reader) (string, error) {
			got, err := stream.Read[T](r)
			return fmt.Sprint(got), err
		}}
}

func objToBytes(o [3]byte) ([]byte, error) { return o[:], nil }
func objFromBytes(b []byte) ([3]byte, int, error) {
	var o [3]byte
	if len(b) < 3 {
		return o, 0, fmt.Errorf("short")
	}
	copy(o[:], b)
	return o, 3, nil
}

func streamCases() []streamCase {
	var id [32]byte
	for i := range id {
		id[i] = byte(i + 1)
	}
	cases := []streamCase{
		numCase("bool", true), numCase("uint8", uint8(0xfe)), numCase("uint16", uint16(0x0102)), numCase("uint32", uint32(0x01020304)),
		numCase("uint64", uint64(0x0102030405060708)), numCase("int8", int8(-2)), numCase("int16", int16(-300)), numCase("int32", int32(-70000)),
		numCase("int64", int64(-1)<<40), numCase("[32]byte", id),
	}
	payloads := [][]byte{{}, {7}, {1, 2, 3}, {1, 2, 3, 4, 5, 6, 7}}
	for _, pl := range payloads {
		pl := pl
		if len(pl) > 0 {
			cases = append(cases, streamCase{name: fmt.Sprintf("WriteBytes/ReadBytes(%d)", len(pl)), want: fmt.Sprintf("%x", pl),
				write: func(w io.WriteSeeker) error { return stream.WriteBytes(w, pl) },
				read: func(r io.Reader) (string, error) {
					b, err := stream.ReadBytes(r, len(pl))
					return fmt.Sprintf("%x", b), err
				}})
		}
		for ln, lt := range lenTypes() {
			ln, lt := ln, lt
			cases = append(cases, streamCase{name: fmt.Sprintf("WriteBytesWithSize/ReadBytesWithSize(%s,%d)", ln, len(pl)), want: fmt.Sprintf("%x", pl),
				write: func(w io.WriteSeeker) error { return stream.WriteBytesWithSize(w, pl, lt) },
				read: func(r io.Reader) (string, error) {
					b, err := stream.ReadBytesWithSize(r, lt)
					return fmt.Sprintf("%x", b), err
				}})
		}
	}
	obj := [3]byte{9, 8, 7}
	cases = append(cases, streamCase{name: "WriteObject/ReadObject", want: fmt.Sprint(obj),
		write: func(w io.WriteSeeker) error { return stream.WriteObject(w, obj, objToBytes) },
		read: func(r io.Reader) (string, error) {
			o, err := stream.ReadObject(r, 3, objFromBytes)
			return fmt.Sprint(o), err
		}})
	for ln, lt := range lenTypes() {
		ln, lt := ln, lt
		cases = append(cases, streamCase{name: "WriteObjectWithSize/ReadObjectWithSize(" + ln + ")", want: fmt.Sprint(obj),
			write: func(w io.WriteSeeker) error { return stream.WriteObjectWithSize(w, obj, lt, objToBytes) },
			read: func(r io.Reader) (string, error) {
				o, err := stream.ReadObjectWithSize(r, lt, objFromBytes)
				return fmt.Sprint(o), err
			}})
		for _, n := range []int{0, 1, 3} {
			n := n
			want := make([]uint16, n)
			for i := range want {
				want[i] = uint16(0x0100*(i+1) + i)
			}
			cases = append(cases, streamCase{name: fmt.Sprintf("WriteCollection/ReadCollection(%s,%d)", ln, n), want: fmt.Sprint(want),
				write: func(w io.WriteSeeker) error {
					return stream.WriteCollection(w, lt, func() (int, error) {
						for _, x := range want {
							if err := stream.Write(w, x); err != nil {
								return 0, err
							}
						}
						return n, nil
					})
				},
				read: func(r io.Reader) (string, error) {
					got := make([]uint16, 0)
					err := stream.ReadCollection(r, lt, func(int) error {
						x, err := stream.Read[uint16](r)
						got = append(got, x)
						return err
					})
					return fmt.Sprint(got), err
				}})
		}
	}
	// a record (marker, collection, marker) written over existing bytes: everything must land where the write
	// position is, not at the end of the writer
	for ln, lt := range lenTypes() {
		ln, lt := ln, lt
		want := []uint16{0x0102, 0x0304}
		cases = append(cases, streamCase{name: "in-place record: Write+WriteCollection+Write(" + ln + ")", prefill: 40, want: fmt.Sprint(0xAA, want, 0xBB),
			write: func(w io.WriteSeeker) error {
				if err := stream.Write(w, uint8(0xAA)); err != nil {
					return err
				}
				if err := stream.WriteCollection(w, lt, func() (int, error) {
					for _, x := range want {
						if err := stream.Write(w, x); err != nil {
							return 0, err
						}
					}
					return len(want), nil
				}); err != nil {
					return err
				}
				return stream.Write(w, uint8(0xBB))
			},
			read: func(r io.Reader) (string, error) {
				a, err := stream.Read[uint8](r)
				if err != nil {
					return "", err
				}
				got := make([]uint16, 0)
				if err := stream.ReadCollection(r, lt, func(int) error {
					x, err := stream.Read[uint16](r)
					got = append(got, x)
					return err
				}); err != nil {
					return "", err
				}
				b, err := stream.Read[uint8](r)
				return fmt.Sprint(int(a), got, int(b)), err
			}})
	}
	sort.Slice(cases, func(i, j int) bool { return cases[i].name < cases[j].name })
	return cases
}

func streamPart() *cli.Part {
	return &cli.Part{Name: "stream", Run: func(c *cli.Ctx) *cli.PartResult {
		maxN := 10
		if c.Thorough() {
			maxN = 12
		}
		viol := map[string]*cli.Violation{}
		var evals, distinct int64
		exhaustive := true
		var samples []any
		for _, sc := range streamCases() {
			buf := stream.NewByteBuffer(sc.prefill)
			if err := sc.write(buf); err != nil {
				viol["stream|write-error|"+sc.name] = &cli.Violation{Part: "stream", Engine: "I", Signature: "stream|write-error|" + sc.name, Message: err.Error()}
				continue
			}
			data, _ := buf.Bytes()
			data = append([]byte{}, data...)
			if sc.prefill > 0 {
				// the record ends at the write position; what lies behind it is old content
				if pos, err := buf.Seek(0, io.SeekCurrent); err == nil && int(pos) <= len(data) {
					data = data[:pos]
				}
			}
			for _, eofLast := range []bool{false, true} {
				complete := compositions(len(data), maxN, func(chunks []int) {
					evals++
					if len(chunks) > 1 {
						distinct++
					}
					r := &chunkReader{data: data, chunks: append([]int{}, chunks...), eofLast: eofLast}
					got, err := sc.read(r)
					if err != nil || got != sc.want || r.pos != len(data) {
						sig := "stream|chunked-read|" + sc.name
						if viol[sig] == nil {
							raw, _ := json.Marshal(map[string]any{"case": sc.name, "chunks": chunks, "eof_with_last_chunk": eofLast})
							viol[sig] = &cli.Violation{Part: "stream", Engine: "I", Signature: sig, Replay: raw,
								Message: fmt.Sprintf("%s: reading the %d written bytes %x back through a reader that splits them into chunks %v (EOF with last chunk: %v) gave %q, %v (consumed %d); written value %s", sc.name, len(data), data, chunks, eofLast, got, err, r.pos, sc.want)}
						}
					}
				})
				if !complete {
					exhaustive = false
				}
			}
			if len(samples) < 3 {
				samples = append(samples, fmt.Sprintf("%s: %d bytes %x, all compositions into read chunks", sc.name, len(data), data))
			}
			// one whole read must work as well
			if got, err := sc.read(bytes.NewReader(data)); err != nil || got != sc.want {
				sig := "stream|plain-read|" + sc.name
				viol[sig] = &cli.Violation{Part: "stream", Engine: "I", Signature: sig, Message: fmt.Sprintf("%s: read back %q, %v; written %s", sc.name, got, err, sc.want)}
			}
		}
		// the largest length a prefix can denote round-trips, the next one is refused (whole reads only: these records
		// are too long for the chunk compositions)
		for _, bc := range []struct {
			ln  string
			lt  serializer.SeriLengthPrefixType
			max int
		}{{"u8", serializer.SeriLengthPrefixTypeAsByte, 255}, {"u16", serializer.SeriLengthPrefixTypeAsUint16, 65535}} {
			for _, n := range []int{bc.max, bc.max + 1} {
				evals++
				pl := make([]byte, n)
				for i := range pl {
					pl[i] = byte(i*7 + 1)
				}
				buf := stream.NewByteBuffer()
				werr := stream.WriteBytesWithSize(buf, pl, bc.lt)
				sig := fmt.Sprintf("stream|length-boundary|WriteBytesWithSize(%s,%d)", bc.ln, n)
				if werr != nil {
					if n <= bc.max {
						viol[sig] = &cli.Violation{Part: "stream", Engine: "I", Signature: sig, Message: fmt.Sprintf("writing %d bytes with a %s length prefix failed: %v", n, bc.ln, werr)}
					}
					continue
				}
				data, _ := buf.Bytes()
				got, rerr := stream.ReadBytesWithSize(bytes.NewReader(data), bc.lt)
				if rerr != nil || !bytes.Equal(got, pl) {
					viol[sig] = &cli.Violation{Part: "stream", Engine: "I", Signature: sig, Message: fmt.Sprintf("WriteBytesWithSize accepted %d bytes with a %s length prefix (largest denotable length %d) and wrote %d bytes; reading them back gives %d bytes, %v", n, bc.ln, bc.max, len(data), len(got), rerr)}
				}
			}
		}
		// ByteBuffer with Seek: overwrite in the middle, write past the end
		bb := stream.NewByteBuffer()
		_, _ = bb.Write([]byte{1, 2, 3, 4})
		_, _ = bb.Seek(1, io.SeekStart)
		_, _ = bb.Write([]byte{9, 9})
		_, _ = bb.Seek(2, io.SeekEnd)
		_, _ = bb.Write([]byte{5})
		if b, _ := bb.Bytes(); fmt.Sprintf("%x", b) != "01090904000005" {
			viol["stream|bytebuffer-seek"] = &cli.Violation{Part: "stream", Engine: "I", Signature: "stream|bytebuffer-seek", Message: fmt.Sprintf("ByteBuffer after seek/overwrite/gap holds %x, expected 01090904000005", b)}
		}
		evals++
		pr := &cli.PartResult{Engine: "I", Evaluations: evals, Distinct: distinct, Exhaustive: exhaustive, Samples: samples,
			Notes: []string{fmt.Sprintf("all compositions for encodings of at most %d bytes, 1-/2-cut splittings and byte-at-a-time above", maxN)}}
		var sigs []string
		for s := range viol {
			sigs = append(sigs, s)
		}
		sort.Strings(sigs)
		for _, s := range sigs {
			pr.Violations = append(pr.Violations, viol[s])
		}
		return pr
	}}
}
