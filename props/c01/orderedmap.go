package main

import (
	"encoding/json"
	"fmt"
	"sort"

	"github.com/iotaledger/hive.go/ds"
	"github.com/iotaledger/hive.go/ds/serializableorderedmap"

	"verif/engine/cli"
	"verif/props/serixgen"
)

// orderedMapPart: SerializableOrderedMap and ds.Set Encode/Decode round trips preserve contents AND insertion order,
// report the number of bytes produced, and are deterministic.
func orderedMapPart() *cli.Part {
	return &cli.Part{Name: "orderedmap", Run: func(c *cli.Ctx) *cli.PartResult {
		api := serixgen.NewAPI()
		viol := map[string]*cli.Violation{}
		fail := func(sig, msg string, rp any) {
			if viol[sig] == nil {
				raw, _ := json.Marshal(rp)
				viol[sig] = &cli.Violation{Part: "orderedmap", Engine: "I", Signature: sig, Message: msg, Replay: raw}
			}
		}
		var evals, distinct int64
		var samples []any
		keys := []uint16{0, 1, 0x0102, 0xffff}
		vals := []serixgen.Str8{"", "a", "bc"}
		// every sequence of up to 4 distinct keys (all orders), values cycling through the alphabet with every offset
		var rec func(seq []uint16)
		rec = func(seq []uint16) {
			for off := 0; off < len(vals); off++ {
				evals++
				m := serializableorderedmap.New[uint16, serixgen.Str8]()
				for i, k := range seq {
					m.Set(k, vals[(i+off)%len(vals)])
				}
				enc, err := m.Encode(api)
				if err != nil {
					fail("orderedmap|encode-error", fmt.Sprintf("Encode of %v failed: %v", seq, err), seq)
					continue
				}
				enc2, _ := m.Encode(api)
				if string(enc) != string(enc2) {
					fail("orderedmap|determinism", fmt.Sprintf("two encodings of %v differ", seq), seq)
				}
				d := serializableorderedmap.New[uint16, serixgen.Str8]()
				n, err := d.Decode(api, enc)
				if err != nil || n != len(enc) {
					fail("orderedmap|decode", fmt.Sprintf("Decode of the %d bytes %x produced by Encode(%v) returned (%d, %v)", len(enc), enc, seq, n, err), seq)
					continue
				}
				var gotK []uint16
				var gotV []serixgen.Str8
				d.ForEach(func(k uint16, v serixgen.Str8) bool { gotK, gotV = append(gotK, k), append(gotV, v); return true })
				ok := len(gotK) == len(seq)
				for i := range seq {
					if ok && (gotK[i] != seq[i] || gotV[i] != vals[(i+off)%len(vals)]) {
						ok = false
					}
				}
				if !ok {
					fail("orderedmap|roundtrip-order", fmt.Sprintf("Decode(Encode(m)) has keys %v values %q, m was built in order %v", gotK, gotV, seq), seq)
				}
				if len(seq) > 1 {
					distinct++
				}
				if len(samples) < 2 && len(seq) == 3 {
					samples = append(samples, fmt.Sprintf("SerializableOrderedMap built in order %v -> %x -> same order", seq, enc))
				}
			}
			if len(seq) == len(keys) {
				return
			}
			for _, k := range keys {
				dup := false
				for _, s := range seq {
					if s == k {
						dup = true
					}
				}
				if !dup {
					rec(append(append([]uint16{}, seq...), k))
				}
			}
		}
		rec(nil)
		// values that Decode must not share between entries: slices and pointers (a destination reused for the next
		// entry would be appended to / aliased)
		for n := 0; n <= 3; n++ {
			evals++
			ms := serializableorderedmap.New[uint16, serixgen.LexU16s]()
			mp := serializableorderedmap.New[uint16, *serixgen.ImplA8]()
			for i := 0; i < n; i++ {
				ms.Set(uint16(10-i), serixgen.LexU16s{uint16(i + 1), uint16(100 + i)})
				mp.Set(uint16(10-i), &serixgen.ImplA8{X: uint8(i + 1)})
			}
			encS, errS := ms.Encode(api)
			encP, errP := mp.Encode(api)
			if errS != nil || errP != nil {
				fail("orderedmap|encode-error", fmt.Sprintf("Encode of a %d-entry map with slice / pointer values failed: %v / %v", n, errS, errP), n)
				continue
			}
			ds2 := serializableorderedmap.New[uint16, serixgen.LexU16s]()
			dp2 := serializableorderedmap.New[uint16, *serixgen.ImplA8]()
			nS, errS := ds2.Decode(api, encS)
			nP, errP := dp2.Decode(api, encP)
			if errS != nil || errP != nil || nS != len(encS) || nP != len(encP) {
				fail("orderedmap|decode", fmt.Sprintf("Decode of a %d-entry map with slice / pointer values returned (%d of %d, %v) / (%d of %d, %v)", n, nS, len(encS), errS, nP, len(encP), errP), n)
				continue
			}
			dump := func(f func(func(k uint16, v string))) string {
				var parts []string
				f(func(k uint16, v string) { parts = append(parts, fmt.Sprintf("%d:%s", k, v)) })
				return fmt.Sprint(parts)
			}
			wantS := dump(func(add func(uint16, string)) {
				ms.ForEach(func(k uint16, v serixgen.LexU16s) bool { add(k, fmt.Sprint([]uint16(v))); return true })
			})
			gotS := dump(func(add func(uint16, string)) {
				ds2.ForEach(func(k uint16, v serixgen.LexU16s) bool { add(k, fmt.Sprint([]uint16(v))); return true })
			})
			wantP := dump(func(add func(uint16, string)) {
				mp.ForEach(func(k uint16, v *serixgen.ImplA8) bool { add(k, fmt.Sprint(*v)); return true })
			})
			gotP := dump(func(add func(uint16, string)) {
				dp2.ForEach(func(k uint16, v *serixgen.ImplA8) bool { add(k, fmt.Sprint(*v)); return true })
			})
			if gotS != wantS || gotP != wantP {
				fail("orderedmap|roundtrip-values", fmt.Sprintf("Decode(Encode(m)) differs for %d entries: slice values %s (want %s), pointer values %s (want %s)", n, gotS, wantS, gotP, wantP), n)
			}
			distinct++
		}
		// ds.Set[uint16]: contents and order
		elems := []uint16{3, 1, 2, 0xffff}
		var recSet func(seq []uint16)
		recSet = func(seq []uint16) {
			evals++
			s := ds.NewSet(seq...)
			enc, err := s.Encode(api)
			if err != nil {
				fail("set|encode-error", fmt.Sprintf("Set.Encode of %v failed: %v", seq, err), seq)
			} else {
				d := ds.NewSet[uint16]()
				n, err := d.Decode(api, enc)
				if err != nil || n != len(enc) || fmt.Sprint(d.ToSlice()) != fmt.Sprint(append([]uint16{}, seq...)) {
					fail("set|roundtrip-order", fmt.Sprintf("Set Decode(Encode(%v)) gave %v (consumed %d of %d, err %v)", seq, d.ToSlice(), n, len(enc), err), seq)
				}
				distinct++
			}
			if len(seq) == len(elems) {
				return
			}
			for _, k := range elems {
				dup := false
				for _, s := range seq {
					if s == k {
						dup = true
					}
				}
				if !dup {
					recSet(append(append([]uint16{}, seq...), k))
				}
			}
		}
		recSet(nil)
		pr := &cli.PartResult{Engine: "I", Evaluations: evals, Distinct: distinct, Exhaustive: true, Samples: samples,
			Notes: []string{"every insertion order of every subset of 4 keys (x3 value offsets) for SerializableOrderedMap[uint16,Str8]; every order of every subset of 4 elements for ds.Set[uint16]"}}
		var sigs []string
		for s := range viol {
			sigs = append(sigs, s)
		}
		sort.Strings(sigs)
		for _, s := range sigs {
			pr.Violations = append(pr.Violations, viol[s])
		}
		return pr
	}}
}
