// C01 — serix, JSON and stream codecs round-trip every encodable value.
package main

import (
	"bytes"
	"context"
	"encoding/json"
	"fmt"
	"reflect"
	"regexp"
	"runtime/debug"
	"sort"
	"strings"

	"github.com/iotaledger/hive.go/serializer/v2/serix"

	"verif/engine/cli"
	"verif/props/serixgen"
)

type recorder struct {
	viol     map[string]*cli.Violation
	badKinds map[string]string // field kind name -> class that already failed for it in a smaller shape
	evals    int64
	distinct int64
	rejected int64
	skipped  int64
	samples  []any
}

func newRecorder() *recorder {
	return &recorder{viol: map[string]*cli.Violation{}, badKinds: map[string]string{}}
}

func (r *recorder) fail(class, shape, detail string, replay any) {
	if r.viol[class] != nil {
		return
	}
	raw, _ := json.Marshal(replay)
	r.viol[class] = &cli.Violation{Part: "serix", Engine: "I", Signature: class, Message: detail + "\n  shape: " + shape, Replay: raw}
}

func topFrame() string {
	st := string(debug.Stack())
	for _, l := range strings.Split(st, "\n") {
		l = strings.TrimSpace(l)
		if strings.HasPrefix(l, "github.com/iotaledger/hive.go/serializer/v2") && !strings.Contains(l, "panic") {
			if i := strings.LastIndex(l, "("); i > 0 {
				l = l[:i]
			}
			return strings.TrimPrefix(l, "github.com/iotaledger/hive.go/serializer/v2/")
		}
	}
	return "?"
}

func guard(f func()) (panicked bool, msg, frame string) {
	defer func() {
		if r := recover(); r != nil {
			panicked, msg, frame = true, fmt.Sprint(r), topFrame()
		}
	}()
	f()
	return
}

// kindsOf lists the field kind names a shape is built from (from its name).
func kindKey(n *serixgen.Node) string {
	// shape names look like struct{a;b}: use the names of the direct fields
	s := strings.TrimSuffix(strings.TrimPrefix(n.Name, "struct{"), "}")
	return s
}

type replay struct {
	Shape    string `json:"shape"`
	Value    string `json:"value"`
	Validate bool   `json:"validate"`
}

func checkBinary(api *serix.API, rec *recorder, n *serixgen.Node, single bool) {
	ctx := context.Background()
	for _, v := range n.Vals() {
		for _, validate := range []bool{false, true} {
			rec.evals++
			rp := replay{n.Name, n.Canon(v), validate}
			var enc []byte
			var dec reflect.Value
			var consumed int
			var encErr, decErr error
			p, msg, frame := guard(func() { enc, dec, consumed, encErr, decErr = serixgen.RoundTrip(api, n, v, validate) })
			if p {
				rec.fail("panic|"+frame+"|"+classOf(msg), n.Name, fmt.Sprintf("Encode/Decode panicked for value %s (validate=%v): %s", n.Canon(v), validate, msg), rp)
				continue
			}
			if encErr != nil {
				rec.rejected++
				continue
			}
			if len(enc) > 1 {
				rec.distinct++
			}
			if decErr != nil {
				rec.fail("roundtrip|decode-rejects-encode-output|"+firstKind(n), n.Name, fmt.Sprintf("Decode rejects the bytes %x that Encode produced for %s (validate=%v): %v", enc, n.Canon(v), validate, decErr), rp)
				continue
			}
			if consumed != len(enc) {
				rec.fail("roundtrip|bytes-consumed|"+firstKind(n), n.Name, fmt.Sprintf("Decode reports %d bytes consumed, Encode produced %d (%x) for %s", consumed, len(enc), enc, n.Canon(v)), rp)
				continue
			}
			if got, want := n.Canon(dec), n.Canon(v); got != want {
				rec.fail("roundtrip|value-differs|"+firstKind(n), n.Name, fmt.Sprintf("Decode(Encode(v)) = %s, v = %s (bytes %x, validate=%v)", got, want, enc, validate), rp)
				continue
			}
			// determinism: same value, repeated encodes (and a re-built copy for maps)
			for k := 0; k < 4; k++ {
				q := reflect.New(n.Type)
				q.Elem().Set(v)
				var opts []serix.Option
				if validate {
					opts = append(opts, serix.WithValidation())
				}
				again, err := api.Encode(ctx, q.Interface(), opts...)
				if err != nil || !bytes.Equal(again, enc) {
					rec.fail("determinism|"+firstKind(n), n.Name, fmt.Sprintf("encoding %s twice gave %x and %x (%v)", n.Canon(v), enc, again, err), rp)
					break
				}
			}
			if len(rec.samples) < 4 && len(enc) > 2 {
				rec.samples = append(rec.samples, fmt.Sprintf("%s value %s validate=%v -> %x", n.Name, n.Canon(v), validate, enc))
			}
		}
	}
}

func checkJSON(api *serix.API, rec *recorder, n *serixgen.Node) {
	if !n.JSONable {
		return
	}
	ctx := context.Background()
	for _, v := range n.Vals() {
		if strings.Contains(n.Canon(v), `\xff`) {
			continue // invalid UTF-8 cannot be expressed in JSON
		}
		rec.evals++
		rp := replay{n.Name, n.Canon(v), false}
		p := reflect.New(n.Type)
		p.Elem().Set(v)
		// only values the binary form accepts are required to round-trip
		if _, err := api.Encode(ctx, p.Interface()); err != nil {
			rec.rejected++
			continue
		}
		var js []byte
		var err error
		var jopts []serix.Option
		if rec.evals%2 == 0 {
			jopts = append(jopts, serix.WithValidation())
		}
		pn, msg, frame := guard(func() { js, err = api.JSONEncode(ctx, p.Interface(), jopts...) })
		if pn {
			rec.fail("panic|"+frame+"|"+classOf(msg), n.Name, fmt.Sprintf("JSONEncode panicked for %s: %s", n.Canon(v), msg), rp)
			continue
		}
		if err != nil {
			rec.rejected++
			continue
		}
		rec.distinct++
		q := reflect.New(n.Type)
		pn, msg, frame = guard(func() { err = api.JSONDecode(ctx, js, q.Interface(), jopts...) })
		if pn {
			rec.fail("panic|"+frame+"|"+classOf(msg), n.Name, fmt.Sprintf("JSONDecode panicked on the output %s of JSONEncode: %s", js, msg), rp)
			continue
		}
		if err != nil {
			rec.fail("json-roundtrip|decode-rejects-encode-output|"+firstKind(n), n.Name, fmt.Sprintf("JSONDecode rejects %s produced by JSONEncode for %s: %v", js, n.Canon(v), err), rp)
			continue
		}
		// the JSON form writes every NaN as "NaN": the payload bits are not expressible, only NaN-ness is compared
		if got, want := nanRe.ReplaceAllString(n.Canon(q.Elem()), "NaN"), nanRe.ReplaceAllString(n.Canon(v), "NaN"); got != want {
			rec.fail("json-roundtrip|value-differs|"+firstKind(n), n.Name, fmt.Sprintf("JSONDecode(JSONEncode(v)) = %s, v = %s (json %s)", got, want, js), rp)
		}
	}
}

var nanRe = regexp.MustCompile(`NaN/[0-9a-f]+`)

func classOf(msg string) string {
	var b strings.Builder
	for _, r := range msg {
		if r >= '0' && r <= '9' {
			continue
		}
		b.WriteRune(r)
		if b.Len() > 70 {
			break
		}
	}
	return b.String()
}

func firstKind(n *serixgen.Node) string { return kindKey(n) }

func run(c *cli.Ctx, what string) *cli.PartResult {
	api := serixgen.NewAPI()
	rec := newRecorder()
	if c.Thorough() {
		serixgen.MaxValues = 1000
	}
	shapes := serixgen.Shapes(true)
	nshapes := 0
	exhaustive := true
	check := func(n *serixgen.Node) {
		switch what {
		case "binary":
			checkBinary(api, rec, n, false)
		case "json":
			checkJSON(api, rec, n)
		}
	}
	// pass 1 (every shard): single-field shapes; a field kind that fails on its own is "bad" and larger shapes
	// containing it are skipped, so that one defect is reported once, under the smallest shape that shows it
	kinds := serixgen.FieldKinds()
	bad := map[string]bool{}
	for _, k := range kinds {
		n := serixgen.Struct(k)
		before := len(rec.viol)
		check(n)
		if len(rec.viol) > before {
			bad[k.Name] = true
		}
	}
	containsBad := func(n *serixgen.Node) bool {
		for b := range bad {
			if strings.Contains(n.Name, b) {
				return true
			}
		}
		return false
	}
	for i, n := range shapes {
		if i < len(kinds) || i%c.NShards != c.Shard {
			continue
		}
		if c.Expired() {
			exhaustive = false
			break
		}
		if containsBad(n) {
			rec.skipped++
			continue
		}
		nshapes++
		check(n)
	}
	ntriples := 0
	if c.Thorough() && exhaustive {
		// all ordered triples of field kinds, built lazily (one reflect type per shape, never freed)
		serixgen.MaxValues = 120
		for i, total := 0, serixgen.TripleCount(); i < total; i++ {
			if i%c.NShards != c.Shard {
				continue
			}
			if c.Expired() {
				exhaustive = false
				break
			}
			n := serixgen.Triple(kinds, i)
			if n == nil {
				continue
			}
			if containsBad(n) {
				rec.skipped++
				continue
			}
			ntriples++
			check(n)
		}
	}
	var badList []string
	for b := range bad {
		badList = append(badList, b)
	}
	sort.Strings(badList)
	pr := &cli.PartResult{Engine: "I", Evaluations: rec.evals, Distinct: rec.distinct, Exhaustive: exhaustive,
		Notes: []string{fmt.Sprintf("%d single-field + %d larger shapes of %d (all ordered pairs, one- and (thorough) three-level nestings) + %d three-field shapes (thorough: all ordered triples, value cap 120) in this shard, %d larger shapes skipped because they contain a field kind that already fails alone %v, %d values rejected by Encode (allowed), value cap per shape %d", len(kinds), nshapes, len(shapes), ntriples, rec.skipped, badList, rec.rejected, serixgen.MaxValues)}}
	pr.Samples = rec.samples
	if len(pr.Samples) == 0 {
		pr.Samples = []any{fmt.Sprintf("%d shapes", nshapes)}
	}
	var sigs []string
	for s := range rec.viol {
		sigs = append(sigs, s)
	}
	sort.Strings(sigs)
	for _, s := range sigs {
		pr.Violations = append(pr.Violations, rec.viol[s])
	}
	return pr
}

func main() {
	parts := []*cli.Part{
		{Name: "binary", Run: func(c *cli.Ctx) *cli.PartResult { return run(c, "binary") }, Shards: 16, ShardsQuick: 8},
		{Name: "json", Run: func(c *cli.Ctx) *cli.PartResult { return run(c, "json") }, Shards: 8, ShardsQuick: 4},
		streamPart(),
		orderedMapPart(),
	}
	cli.Main(&cli.Property{
		ID: "C01", Level: "exploration", Parts: parts, QuickSecs: 60, ThoroughSecs: 900,
		Rule:        "complete enumeration of a type-shape grammar built at run time with reflect (every field kind alone, all ordered pairs, thorough: all ordered triples, and every kind nested (thorough: three levels deep) as struct field / optional pointer / slice element / map value) x the complete cross product of per-leaf boundary-value alphabets (capped per shape; the cap is reported) x validation on/off; binary round trip (value, consumed bytes, determinism), JSON round trip, and every stream Write*/Read* helper pair read back through every composition of the encoded length into read chunks; distinct_nontrivial = accepted (shape, value) pairs whose encoding is longer than one byte",
		Assumptions: []string{"nil and empty slices/maps are identified (the wire cannot tell them apart); timestamps are compared by UnixNano", "independence of Go's map iteration order is only sampled (4 repeated encodes per value)"},
		NotReached:  []string{"shapes deeper than four struct levels or wider than three fields", "string/[]byte lengths above 256"},
	})
}
