// Package serixgen enumerates serix type shapes at run time (reflect.StructOf &
// co.), value alphabets for every shape, and contains an independent reference
// encoder for the documented wire layout (shared by the C01, C02 and C03 checks).
package serixgen

import (
	"context"
	"encoding/binary"
	"fmt"
	"math"
	"math/big"
	"reflect"
	"sort"
	"strings"
	"time"
	"unicode/utf8"

	"github.com/iotaledger/hive.go/serializer/v2"
	"github.com/iotaledger/hive.go/serializer/v2/serix"
)

// ---------- harness types with registered settings ----------

type Str8 string
type Bytes8 []byte
type LexU16s []uint16        // lexical ordering + no duplicates, uint8 prefix
type LexMap map[uint8]uint16 // registered with lexical ordering on and array rules that carry only a length bound
type Custom struct{ A, B uint8 }
type CustomCode struct{ V uint8 }

func (c Custom) Encode() ([]byte, error) { return []byte{0xC5, c.A, c.B}, nil }
func (c *Custom) Decode(b []byte) (int, error) {
	if len(b) < 3 {
		return 0, fmt.Errorf("custom: short input")
	}
	if b[0] != 0xC5 {
		return 0, fmt.Errorf("custom: bad magic")
	}
	c.A, c.B = b[1], b[2]
	return 3, nil
}
func (c CustomCode) Encode() ([]byte, error) { return []byte{c.V}, nil }
func (c *CustomCode) Decode(b []byte) (int, error) {
	if len(b) < 1 {
		return 0, fmt.Errorf("customcode: short input")
	}
	c.V = b[0]
	return 1, nil
}

type Iface8 interface{ isIface8() }
type ImplA8 struct {
	X uint8 `serix:"x"`
}
type ImplB8 struct {
	S Str8 `serix:"s"`
}

func (ImplA8) isIface8() {}
func (ImplB8) isIface8() {}

type Iface32 interface{ isIface32() }
type ImplA32 struct {
	X uint16 `serix:"x"`
}
type ImplB32 struct{}

func (ImplA32) isIface32() {}
func (ImplB32) isIface32() {}

type AmoIfaces []Iface8 // at most one of each type byte; type 1 must occur

type Emb struct {
	E uint8 `serix:"e"`
}

// NewAPI returns a serix API with all harness types registered.
func NewAPI() *serix.API {
	api := serix.NewAPI()
	must := func(err error) {
		if err != nil {
			panic(err)
		}
	}
	must(api.RegisterTypeSettings(Str8(""), serix.TypeSettings{}.WithLengthPrefixType(serix.LengthPrefixTypeAsByte)))
	must(api.RegisterTypeSettings(Bytes8{}, serix.TypeSettings{}.WithLengthPrefixType(serix.LengthPrefixTypeAsByte)))
	must(api.RegisterTypeSettings(LexU16s{}, serix.TypeSettings{}.WithLengthPrefixType(serix.LengthPrefixTypeAsByte).WithLexicalOrdering(true).
		WithArrayRules(&serix.ArrayRules{ValidationMode: serializer.ArrayValidationModeLexicalOrdering | serializer.ArrayValidationModeNoDuplicates})))
	must(api.RegisterTypeSettings(LexMap{}, serix.TypeSettings{}.WithLengthPrefixType(serix.LengthPrefixTypeAsByte).WithLexicalOrdering(true).
		WithArrayRules(&serix.ArrayRules{Max: 9})))
	must(api.RegisterTypeSettings(CustomCode{}, serix.TypeSettings{}.WithObjectType(uint8(9))))
	must(api.RegisterTypeSettings(ImplA8{}, serix.TypeSettings{}.WithObjectType(uint8(1))))
	must(api.RegisterTypeSettings(ImplB8{}, serix.TypeSettings{}.WithObjectType(uint8(2))))
	must(api.RegisterInterfaceObjects((*Iface8)(nil), (*ImplA8)(nil), (*ImplB8)(nil)))
	must(api.RegisterTypeSettings(ImplA32{}, serix.TypeSettings{}.WithObjectType(uint32(1))))
	must(api.RegisterTypeSettings(ImplB32{}, serix.TypeSettings{}.WithObjectType(uint32(0x01020304))))
	must(api.RegisterInterfaceObjects((*Iface32)(nil), (*ImplA32)(nil), (*ImplB32)(nil)))
	must(api.RegisterTypeSettings(AmoIfaces{}, serix.TypeSettings{}.WithLengthPrefixType(serix.LengthPrefixTypeAsByte).
		WithArrayRules(&serix.ArrayRules{ValidationMode: serializer.ArrayValidationModeAtMostOneOfEachTypeByte, MustOccur: serializer.TypePrefixes{1: struct{}{}}})))
	return api
}

// ---------- schema nodes ----------

// ErrReject means: the reference says Encode must not accept this value (in this validation mode).
var ErrReject = fmt.Errorf("value must be rejected")

type Node struct {
	Name string
	Type reflect.Type
	Tag  string // extra serix tag parts when used as a struct field
	// field modifiers
	Optional, Embedded, Inlined bool
	OmitEmpty                   bool // JSON form only: the key is left out when the value is empty
	Vals                        func() []reflect.Value
	Ref                         func(v reflect.Value, validate bool) ([]byte, error)
	Canon                       func(v reflect.Value) string
	// InRange reports whether all timestamps inside v lie in the int64-nanosecond range (nil = always)
	InRange func(v reflect.Value) bool
	// JSON: whether the JSON/map form can express every value of this node
	JSONable bool
	Depth    int
}

func le(n int, v uint64) []byte {
	b := make([]byte, 8)
	binary.LittleEndian.PutUint64(b, v)
	return b[:n]
}

func prefixName(n int) string { return map[int]string{1: "uint8", 2: "uint16", 4: "uint32"}[n] }

func vals(t reflect.Type, xs ...any) func() []reflect.Value {
	return func() []reflect.Value {
		out := make([]reflect.Value, len(xs))
		for i, x := range xs {
			out[i] = reflect.ValueOf(x)
			if out[i].Type() != t {
				out[i] = out[i].Convert(t)
			}
		}
		return out
	}
}

// floatBits returns the exact bit pattern of a float value (going through float64 would quiet a signalling NaN).
func floatBits(v reflect.Value) uint64 {
	p := reflect.New(v.Type())
	p.Elem().Set(v)
	if v.Kind() == reflect.Float32 {
		return uint64(*(*uint32)(p.UnsafePointer()))
	}
	return *(*uint64)(p.UnsafePointer())
}

func numNode(name string, t reflect.Type, size int, signed, float bool, xs ...any) *Node {
	return &Node{Name: name, Type: t, JSONable: true, Vals: vals(t, xs...),
		Ref: func(v reflect.Value, _ bool) ([]byte, error) {
			switch {
			case float:
				return le(size, floatBits(v)), nil
			case signed:
				return le(size, uint64(v.Int())), nil
			}
			return le(size, v.Uint()), nil
		},
		Canon: func(v reflect.Value) string {
			if float {
				return fmt.Sprintf("%v/%x", v.Interface(), floatBits(v))
			}
			return fmt.Sprint(v.Interface())
		},
	}
}

func Leaves() []*Node {
	var out []*Node
	out = append(out, &Node{Name: "bool", Type: reflect.TypeOf(true), JSONable: true, Vals: vals(reflect.TypeOf(true), false, true),
		Ref: func(v reflect.Value, _ bool) ([]byte, error) {
			if v.Bool() {
				return []byte{1}, nil
			}
			return []byte{0}, nil
		},
		Canon: func(v reflect.Value) string { return fmt.Sprint(v.Bool()) }})
	out = append(out,
		numNode("int8", reflect.TypeOf(int8(0)), 1, true, false, int8(0), int8(1), int8(-1), int8(math.MinInt8), int8(math.MaxInt8)),
		numNode("int16", reflect.TypeOf(int16(0)), 2, true, false, int16(0), int16(-1), int16(math.MinInt16), int16(math.MaxInt16), int16(0x0102)),
		numNode("int32", reflect.TypeOf(int32(0)), 4, true, false, int32(0), int32(-1), int32(math.MinInt32), int32(math.MaxInt32), int32(0x01020304)),
		numNode("int64", reflect.TypeOf(int64(0)), 8, true, false, int64(0), int64(-1), int64(math.MinInt64), int64(math.MaxInt64), int64(0x0102030405060708)),
		numNode("uint8", reflect.TypeOf(uint8(0)), 1, false, false, uint8(0), uint8(1), uint8(0x80), uint8(0xff)),
		numNode("uint16", reflect.TypeOf(uint16(0)), 2, false, false, uint16(0), uint16(1), uint16(0x0102), uint16(0xffff)),
		numNode("uint32", reflect.TypeOf(uint32(0)), 4, false, false, uint32(0), uint32(1), uint32(0x01020304), uint32(0xffffffff)),
		numNode("uint64", reflect.TypeOf(uint64(0)), 8, false, false, uint64(0), uint64(1), uint64(0x0102030405060708), uint64(math.MaxUint64)),
		numNode("float32", reflect.TypeOf(float32(0)), 4, false, true, float32(0), float32(1.5), float32(-2.25), float32(math.MaxFloat32), math.Float32frombits(0x7fc00000), math.Float32frombits(0x7fa00001)),
		numNode("float64", reflect.TypeOf(float64(0)), 8, false, true, float64(0), float64(1.5), float64(-2.25), float64(math.MaxFloat64), math.Float64frombits(0x7ff8000000000001), math.Float64frombits(0x7ff4000000000001)),
	)
	for _, p := range []int{1, 2, 4} {
		p := p
		for _, bounds := range [][2]int{{0, 0}, {1, 2}} {
			bounds := bounds
			tag := ",lenPrefix=" + prefixName(p)
			if bounds[1] != 0 {
				tag += fmt.Sprintf(",minLen=%d,maxLen=%d", bounds[0], bounds[1])
			}
			lenOK := func(n int, validate bool) bool {
				if n >= 1<<(8*uint(p)) {
					return false
				}
				if validate && bounds[1] != 0 && (n < bounds[0] || n > bounds[1]) {
					return false
				}
				return true
			}
			strVals := []any{"", "a", "é", "abc"}
			if p == 1 {
				strVals = append(strVals, strings.Repeat("x", 255), strings.Repeat("y", 256))
			}
			strVals = append(strVals, "\xff\xfe") // invalid UTF-8: rejected with validation
			out = append(out, &Node{Name: fmt.Sprintf("string/p%d/%d-%d", p, bounds[0], bounds[1]), Type: reflect.TypeOf(""), Tag: tag, JSONable: true,
				Vals: vals(reflect.TypeOf(""), strVals...),
				Ref: func(v reflect.Value, validate bool) ([]byte, error) {
					s := v.String()
					if !lenOK(len(s), validate) || (validate && !validUTF8(s)) {
						return nil, ErrReject
					}
					return append(le(p, uint64(len(s))), s...), nil
				},
				Canon: func(v reflect.Value) string { return fmt.Sprintf("%q", v.String()) }})
			// byte slices: min/max are enforced by the serializer regardless of the validation option
			byteVals := []any{[]byte(nil), []byte{}, []byte{0}, []byte{1, 2, 3}}
			if p == 1 {
				byteVals = append(byteVals, make([]byte, 255), make([]byte, 256))
			}
			out = append(out, &Node{Name: fmt.Sprintf("bytes/p%d/%d-%d", p, bounds[0], bounds[1]), Type: reflect.TypeOf([]byte{}), Tag: tag, JSONable: true,
				Vals: vals(reflect.TypeOf([]byte{}), byteVals...),
				Ref: func(v reflect.Value, _ bool) ([]byte, error) {
					b := v.Bytes()
					if !lenOK(len(b), true) {
						return nil, ErrReject
					}
					return append(le(p, uint64(len(b))), b...), nil
				},
				Canon: func(v reflect.Value) string { return fmt.Sprintf("%x", v.Bytes()) }})
		}
	}
	for _, n := range []int{1, 4, 32} {
		n := n
		t := reflect.ArrayOf(n, reflect.TypeOf(byte(0)))
		mk := func(fill byte) any {
			a := reflect.New(t).Elem()
			for i := 0; i < n; i++ {
				a.Index(i).SetUint(uint64(fill) + uint64(i))
			}
			return a.Interface()
		}
		out = append(out, &Node{Name: fmt.Sprintf("bytearray%d", n), Type: t, JSONable: true, Vals: vals(t, mk(0), mk(0xf0)),
			Ref: func(v reflect.Value, _ bool) ([]byte, error) {
				b := make([]byte, n)
				for i := range b {
					b[i] = byte(v.Index(i).Uint())
				}
				return b, nil
			},
			Canon: func(v reflect.Value) string { return fmt.Sprint(v.Interface()) }})
	}
	bigT := reflect.TypeOf((*big.Int)(nil))
	two256 := new(big.Int).Lsh(big.NewInt(1), 256)
	out = append(out, &Node{Name: "bigint", Type: bigT, JSONable: true,
		Vals: vals(bigT, big.NewInt(0), big.NewInt(1), new(big.Int).Lsh(big.NewInt(1), 255), new(big.Int).Sub(two256, big.NewInt(1)), two256, big.NewInt(-1), (*big.Int)(nil)),
		Ref: func(v reflect.Value, _ bool) ([]byte, error) {
			b, _ := v.Interface().(*big.Int)
			if b == nil || b.Sign() < 0 || b.BitLen() > 256 {
				return nil, ErrReject
			}
			be := b.FillBytes(make([]byte, 32))
			for i, j := 0, 31; i < j; i, j = i+1, j-1 {
				be[i], be[j] = be[j], be[i]
			}
			return be, nil
		},
		Canon: func(v reflect.Value) string {
			b, _ := v.Interface().(*big.Int)
			if b == nil {
				return "nil"
			}
			return b.String()
		}})
	timeT := reflect.TypeOf(time.Time{})
	out = append(out, &Node{Name: "time", Type: timeT, JSONable: true,
		Vals: vals(timeT, time.Unix(0, 0), time.Unix(0, 1), time.Unix(1700000000, 123456789), time.Unix(0, math.MaxInt64), time.Unix(0, math.MaxInt64-1)),
		Ref: func(v reflect.Value, _ bool) ([]byte, error) {
			return le(8, uint64(v.Interface().(time.Time).UnixNano())), nil
		},
		Canon: func(v reflect.Value) string { return fmt.Sprint(v.Interface().(time.Time).UnixNano()) },
		InRange: func(v reflect.Value) bool {
			n := v.Interface().(time.Time).UnixNano()
			return n >= 0 && n < math.MaxInt64
		}})
	custT := reflect.TypeOf(Custom{})
	out = append(out, &Node{Name: "custom", Type: custT, Vals: vals(custT, Custom{}, Custom{1, 0xff}),
		Ref: func(v reflect.Value, _ bool) ([]byte, error) {
			c := v.Interface().(Custom)
			return []byte{0xC5, c.A, c.B}, nil
		},
		Canon: func(v reflect.Value) string { return fmt.Sprint(v.Interface()) }})
	ccT := reflect.TypeOf(CustomCode{})
	out = append(out, &Node{Name: "customcode", Type: ccT, Vals: vals(ccT, CustomCode{}, CustomCode{0x7f}),
		Ref: func(v reflect.Value, _ bool) ([]byte, error) {
			return []byte{9, v.Interface().(CustomCode).V}, nil
		},
		Canon: func(v reflect.Value) string { return fmt.Sprint(v.Interface()) }})
	return out
}

func validUTF8(s string) bool { return utf8.ValidString(s) }

// element nodes: types that carry their own registered settings and can therefore be slice elements / map keys / values
func str8Node() *Node {
	t := reflect.TypeOf(Str8(""))
	return &Node{Name: "Str8", Type: t, JSONable: true, Vals: vals(t, Str8(""), Str8("a"), Str8("bc")),
		Ref: func(v reflect.Value, _ bool) ([]byte, error) {
			s := v.String()
			return append([]byte{byte(len(s))}, s...), nil
		},
		Canon: func(v reflect.Value) string { return fmt.Sprintf("%q", v.String()) }}
}

// str8TaggedNode: the named string type is registered with a uint8 length prefix, the struct field's tag asks for
// uint16 - the tag wins (documented precedence: registered settings < struct tag < call option).
func str8TaggedNode() *Node {
	n := str8Node()
	n.Name = "Str8/tag-p2"
	n.Tag = ",lenPrefix=uint16"
	n.Ref = func(v reflect.Value, _ bool) ([]byte, error) {
		s := v.String()
		return append(le(2, uint64(len(s))), s...), nil
	}
	return n
}

func bytes8Node() *Node {
	t := reflect.TypeOf(Bytes8{})
	return &Node{Name: "Bytes8", Type: t, JSONable: true, Vals: vals(t, Bytes8(nil), Bytes8{7}, Bytes8{1, 2}),
		Ref: func(v reflect.Value, _ bool) ([]byte, error) {
			b := v.Bytes()
			return append([]byte{byte(len(b))}, b...), nil
		},
		Canon: func(v reflect.Value) string { return fmt.Sprintf("%x", v.Bytes()) }}
}

func byName(ns []*Node, name string) *Node {
	for _, n := range ns {
		if n.Name == name {
			return n
		}
	}
	panic("no node " + name)
}

// seqRef encodes a sequence of already encoded elements.
func seqRef(p int, elems [][]byte, sorted bool) []byte {
	if sorted {
		sort.Slice(elems, func(i, j int) bool { return string(elems[i]) < string(elems[j]) })
	}
	out := le(p, uint64(len(elems)))
	for _, e := range elems {
		out = append(out, e...)
	}
	return out
}

// SliceOf builds a slice field node (element settings come from the element's registered type settings).
func SliceOf(elem *Node, p, minLen, maxLen int) *Node {
	t := reflect.SliceOf(elem.Type)
	tag := ",lenPrefix=" + prefixName(p)
	if maxLen != 0 {
		tag += fmt.Sprintf(",minLen=%d,maxLen=%d", minLen, maxLen)
	}
	return &Node{Name: fmt.Sprintf("[]%s/p%d/%d-%d", elem.Name, p, minLen, maxLen), Type: t, Tag: tag, JSONable: elem.JSONable, Depth: elem.Depth + 1,
		Vals: func() []reflect.Value {
			ev := elem.Vals()
			out := []reflect.Value{reflect.Zero(t), reflect.MakeSlice(t, 0, 0)}
			for n := 1; n <= 3 && n <= len(ev); n++ {
				// all arrangements of the first n element values (n<=3) plus one with a repeated element
				perm(n, func(idx []int) {
					s := reflect.MakeSlice(t, n, n)
					for i, j := range idx {
						s.Index(i).Set(ev[j])
					}
					out = append(out, s)
				})
			}
			if len(ev) > 0 {
				s := reflect.MakeSlice(t, 2, 2)
				s.Index(0).Set(ev[len(ev)-1])
				s.Index(1).Set(ev[len(ev)-1])
				out = append(out, s)
			}
			return out
		},
		Ref: func(v reflect.Value, validate bool) ([]byte, error) {
			n := v.Len()
			if n >= 1<<(8*uint(p)) || (validate && maxLen != 0 && (n < minLen || n > maxLen)) {
				return nil, ErrReject
			}
			var elems [][]byte
			for i := 0; i < n; i++ {
				b, err := elem.Ref(v.Index(i), validate)
				if err != nil {
					return nil, err
				}
				elems = append(elems, b)
			}
			return seqRef(p, elems, false), nil
		},
		Canon: func(v reflect.Value) string {
			var parts []string
			for i := 0; i < v.Len(); i++ {
				parts = append(parts, elem.Canon(v.Index(i)))
			}
			return "[" + strings.Join(parts, ",") + "]"
		},
		InRange: func(v reflect.Value) bool {
			for i := 0; i < v.Len(); i++ {
				if !inRange(elem, v.Index(i)) {
					return false
				}
			}
			return true
		}}
}

func perm(n int, f func([]int)) {
	idx := make([]int, n)
	for i := range idx {
		idx[i] = i
	}
	var rec func(k int)
	rec = func(k int) {
		if k == n {
			f(append([]int{}, idx...))
			return
		}
		for i := k; i < n; i++ {
			idx[k], idx[i] = idx[i], idx[k]
			rec(k + 1)
			idx[k], idx[i] = idx[i], idx[k]
		}
	}
	rec(0)
}

// ArrayOf builds an array of non-byte elements (encoded like a slice, with a length prefix).
func ArrayOf(elem *Node, n, p int) *Node {
	t := reflect.ArrayOf(n, elem.Type)
	return &Node{Name: fmt.Sprintf("[%d]%s/p%d", n, elem.Name, p), Type: t, Tag: ",lenPrefix=" + prefixName(p), JSONable: elem.JSONable, Depth: elem.Depth + 1,
		Vals: func() []reflect.Value {
			ev := elem.Vals()
			var out []reflect.Value
			for k := 0; k < 2 && k < len(ev); k++ {
				a := reflect.New(t).Elem()
				for i := 0; i < n; i++ {
					a.Index(i).Set(ev[(k+i)%len(ev)])
				}
				out = append(out, a)
			}
			return out
		},
		Ref: func(v reflect.Value, validate bool) ([]byte, error) {
			var elems [][]byte
			for i := 0; i < n; i++ {
				b, err := elem.Ref(v.Index(i), validate)
				if err != nil {
					return nil, err
				}
				elems = append(elems, b)
			}
			return seqRef(p, elems, false), nil
		},
		Canon: func(v reflect.Value) string {
			var parts []string
			for i := 0; i < n; i++ {
				parts = append(parts, elem.Canon(v.Index(i)))
			}
			return "[" + strings.Join(parts, ",") + "]"
		}}
}

// MapOf builds a map field node; entries are written in byte-lexical order of key||value.
func MapOf(key, val *Node, p, minLen, maxLen int) *Node {
	t := reflect.MapOf(key.Type, val.Type)
	tag := ",lenPrefix=" + prefixName(p)
	if maxLen != 0 {
		tag += fmt.Sprintf(",minLen=%d,maxLen=%d", minLen, maxLen)
	}
	return &Node{Name: fmt.Sprintf("map[%s]%s/p%d/%d-%d", key.Name, val.Name, p, minLen, maxLen), Type: t, Tag: tag, JSONable: key.JSONable && val.JSONable && key.Type.Kind() == reflect.String, Depth: val.Depth + 1,
		Vals: func() []reflect.Value {
			kv, vv := key.Vals(), val.Vals()
			out := []reflect.Value{reflect.Zero(t), reflect.MakeMap(t)}
			for n := 1; n <= 3 && n <= len(kv); n++ {
				m := reflect.MakeMap(t)
				for i := 0; i < n; i++ {
					m.SetMapIndex(kv[len(kv)-1-i], vv[i%len(vv)]) // inserted in descending key order
				}
				out = append(out, m)
			}
			return out
		},
		Ref: func(v reflect.Value, validate bool) ([]byte, error) {
			n := v.Len()
			if n >= 1<<(8*uint(p)) || (validate && maxLen != 0 && (n < minLen || n > maxLen)) {
				return nil, ErrReject
			}
			var elems [][]byte
			it := v.MapRange()
			for it.Next() {
				kb, err := key.Ref(it.Key(), validate)
				if err != nil {
					return nil, err
				}
				vb, err := val.Ref(it.Value(), validate)
				if err != nil {
					return nil, err
				}
				elems = append(elems, append(kb, vb...))
			}
			return seqRef(p, elems, true), nil
		},
		Canon: func(v reflect.Value) string {
			var parts []string
			it := v.MapRange()
			for it.Next() {
				parts = append(parts, key.Canon(it.Key())+":"+val.Canon(it.Value()))
			}
			sort.Strings(parts)
			return "{" + strings.Join(parts, ",") + "}"
		},
		InRange: func(v reflect.Value) bool {
			it := v.MapRange()
			for it.Next() {
				if !inRange(key, it.Key()) || !inRange(val, it.Value()) {
					return false
				}
			}
			return true
		}}
}

// LexU16sNode is the named slice type with lexical ordering and no-duplicates rules.
func LexU16sNode() *Node {
	t := reflect.TypeOf(LexU16s{})
	enc := func(v reflect.Value) [][]byte {
		var e [][]byte
		for i := 0; i < v.Len(); i++ {
			e = append(e, le(2, v.Index(i).Uint()))
		}
		return e
	}
	return &Node{Name: "LexU16s", Type: t, JSONable: true, Depth: 1,
		Vals: vals(t, LexU16s(nil), LexU16s{1}, LexU16s{1, 2}, LexU16s{0x0200, 1}, LexU16s{3, 2, 1}, LexU16s{5, 5}),
		Ref: func(v reflect.Value, validate bool) ([]byte, error) {
			e := enc(v)
			if validate {
				seen := map[string]bool{}
				for _, x := range e {
					if seen[string(x)] {
						return nil, ErrReject
					}
					seen[string(x)] = true
				}
			}
			return seqRef(1, e, true), nil
		},
		Canon: func(v reflect.Value) string {
			e := enc(v)
			sort.Slice(e, func(i, j int) bool { return string(e[i]) < string(e[j]) })
			return fmt.Sprintf("%x", e)
		}}
}

// LexMapNode is the named map type whose registered settings already ask for lexical ordering while its array rules
// only bound the length; 8 entries make an accidental match of Go's map iteration order with the byte-lexical order
// unlikely (one rotation out of eight per encode).
func LexMapNode() *Node {
	t := reflect.TypeOf(LexMap{})
	entries := func(v reflect.Value) [][]byte {
		var e [][]byte
		it := v.MapRange()
		for it.Next() {
			e = append(e, append(le(1, it.Key().Uint()), le(2, it.Value().Uint())...))
		}
		sort.Slice(e, func(i, j int) bool { return string(e[i]) < string(e[j]) })
		return e
	}
	big := LexMap{}
	for i := 0; i < 8; i++ {
		big[uint8(200-23*i)] = uint16(i * 257)
	}
	ten := LexMap{}
	for i := 0; i < 10; i++ {
		ten[uint8(i)] = 1
	}
	return &Node{Name: "LexMap", Type: t, JSONable: false, Depth: 1,
		Vals: vals(t, LexMap(nil), LexMap{1: 2}, LexMap{2: 1, 1: 0x0102}, big, ten),
		Ref: func(v reflect.Value, validate bool) ([]byte, error) {
			if validate && v.Len() > 9 {
				return nil, ErrReject
			}
			return seqRef(1, entries(v), true), nil
		},
		Canon: func(v reflect.Value) string { return fmt.Sprintf("%x", entries(v)) }}
}

// IfaceNode is an interface-typed node (uint8 or uint32 type codes).
func IfaceNode(wide bool) *Node {
	if wide {
		t := reflect.TypeOf((*Iface32)(nil)).Elem()
		return &Node{Name: "Iface32", Type: t, Depth: 1,
			Vals: func() []reflect.Value {
				mk := func(x Iface32) reflect.Value { v := reflect.New(t).Elem(); v.Set(reflect.ValueOf(x)); return v }
				return []reflect.Value{mk(ImplA32{X: 0x0102}), mk(ImplB32{}), reflect.Zero(t)}
			},
			Ref: func(v reflect.Value, _ bool) ([]byte, error) {
				switch x := v.Interface().(type) {
				case ImplA32:
					return append(le(4, 1), le(2, uint64(x.X))...), nil
				case ImplB32:
					return le(4, 0x01020304), nil
				}
				return nil, ErrReject
			},
			Canon: func(v reflect.Value) string { return fmt.Sprintf("%T%v", v.Interface(), v.Interface()) }}
	}
	t := reflect.TypeOf((*Iface8)(nil)).Elem()
	return &Node{Name: "Iface8", Type: t, Depth: 1,
		Vals: func() []reflect.Value {
			mk := func(x Iface8) reflect.Value { v := reflect.New(t).Elem(); v.Set(reflect.ValueOf(x)); return v }
			return []reflect.Value{mk(ImplA8{X: 7}), mk(ImplB8{S: "hi"}), reflect.Zero(t)}
		},
		Ref:   iface8Ref,
		Canon: func(v reflect.Value) string { return fmt.Sprintf("%T%v", v.Interface(), v.Interface()) }}
}

func iface8Ref(v reflect.Value, _ bool) ([]byte, error) {
	switch x := v.Interface().(type) {
	case ImplA8:
		return []byte{1, x.X}, nil
	case ImplB8:
		return append([]byte{2, byte(len(x.S))}, x.S...), nil
	}
	return nil, ErrReject
}

// AmoIfacesNode: []Iface8 with at-most-one-of-each-type and must-occur(type 1).
func AmoIfacesNode() *Node {
	t := reflect.TypeOf(AmoIfaces{})
	return &Node{Name: "AmoIfaces", Type: t, Depth: 2,
		Vals: vals(t, AmoIfaces{ImplA8{X: 1}}, AmoIfaces{ImplA8{X: 1}, ImplB8{S: "z"}}, AmoIfaces{ImplB8{S: "z"}, ImplA8{X: 1}}, AmoIfaces{ImplA8{X: 1}, ImplA8{X: 2}}, AmoIfaces{ImplB8{S: "q"}}, AmoIfaces{}),
		Ref: func(v reflect.Value, validate bool) ([]byte, error) {
			var e [][]byte
			types := map[byte]int{}
			for i := 0; i < v.Len(); i++ {
				b, err := iface8Ref(v.Index(i), validate)
				if err != nil {
					return nil, err
				}
				types[b[0]]++
				e = append(e, b)
			}
			if validate {
				if types[1] == 0 {
					return nil, ErrReject
				}
				for _, n := range types {
					if n > 1 {
						return nil, ErrReject
					}
				}
			}
			return seqRef(1, e, false), nil
		},
		Canon: func(v reflect.Value) string { return fmt.Sprintf("%v", v.Interface()) }}
}

// Opt marks a pointer/interface node as an optional struct field.
func Opt(n *Node) *Node {
	c := *n
	c.Optional = true
	c.Name = "opt(" + n.Name + ")"
	return &c
}

// Omit marks a node as an omitempty struct field (only the JSON/map form is affected).
func Omit(n *Node) *Node {
	c := *n
	c.OmitEmpty = true
	c.Name = "omitempty(" + n.Name + ")"
	return &c
}

// PtrTo builds a pointer-to-struct node.
func PtrTo(n *Node) *Node {
	t := reflect.PointerTo(n.Type)
	return &Node{Name: "*" + n.Name, Type: t, JSONable: n.JSONable, Depth: n.Depth,
		Vals: func() []reflect.Value {
			out := []reflect.Value{reflect.Zero(t)}
			for _, v := range n.Vals() {
				p := reflect.New(n.Type)
				p.Elem().Set(v)
				out = append(out, p)
			}
			return out
		},
		Ref: func(v reflect.Value, validate bool) ([]byte, error) {
			if v.IsNil() {
				return nil, ErrReject // a nil pointer is only legal for optional fields (handled by the struct)
			}
			return n.Ref(v.Elem(), validate)
		},
		Canon: func(v reflect.Value) string {
			if v.IsNil() {
				return "nil"
			}
			return "&" + n.Canon(v.Elem())
		},
		InRange: func(v reflect.Value) bool { return v.IsNil() || inRange(n, v.Elem()) }}
}

// EmbeddedNode is the pre-declared embedded struct (flattened unless inlined).
func EmbeddedNode(inlined bool) *Node {
	t := reflect.TypeOf(Emb{})
	n := &Node{Name: "Emb", Type: t, Embedded: true, Inlined: inlined, JSONable: true, Depth: 1,
		Vals:  vals(t, Emb{0}, Emb{0xaa}),
		Ref:   func(v reflect.Value, _ bool) ([]byte, error) { return []byte{v.Interface().(Emb).E}, nil },
		Canon: func(v reflect.Value) string { return fmt.Sprint(v.Interface()) }}
	if inlined {
		n.Name = "Emb(inlined)"
	}
	return n
}

// MaxValues caps the number of values enumerated per struct (the product is complete below the cap).
var MaxValues = 200

// Struct builds a struct node from field nodes.
func Struct(fields ...*Node) *Node {
	sf := make([]reflect.StructField, len(fields))
	var names []string
	jsonable := true
	depth := 0
	for i, f := range fields {
		name := fmt.Sprintf("F%d", i)
		tag := "f" + fmt.Sprint(i) + f.Tag
		if f.Inlined {
			tag = f.Tag // an inlined field is merged into its parent in the JSON form and has no key of its own
		}
		if f.Optional {
			tag += ",optional"
		}
		if f.Inlined {
			tag += ",inlined"
		}
		if f.OmitEmpty {
			tag += ",omitempty"
		}
		sf[i] = reflect.StructField{Name: name, Type: f.Type, Tag: reflect.StructTag(fmt.Sprintf(`serix:"%s"`, tag))}
		if f.Embedded {
			sf[i].Name = "Emb"
			sf[i].Anonymous = true
		}
		names = append(names, f.Name)
		jsonable = jsonable && f.JSONable
		if f.Depth > depth {
			depth = f.Depth
		}
	}
	t := reflect.StructOf(sf)
	return &Node{Name: "struct{" + strings.Join(names, ";") + "}", Type: t, JSONable: jsonable, Depth: depth + 1,
		Vals: func() []reflect.Value {
			lists := make([][]reflect.Value, len(fields))
			total := 1
			for i, f := range fields {
				lists[i] = f.Vals()
				total *= len(lists[i])
			}
			var out []reflect.Value
			// mixed-radix enumeration; above the cap take an evenly spread subset (always including first and last)
			step := 1
			if total > MaxValues {
				step = total/MaxValues + 1
			}
			for k := 0; k < total; k += step {
				v := reflect.New(t).Elem()
				r := k
				for i := range fields {
					v.Field(i).Set(lists[i][r%len(lists[i])])
					r /= len(lists[i])
				}
				out = append(out, v)
			}
			return out
		},
		Ref: func(v reflect.Value, validate bool) ([]byte, error) {
			var out []byte
			for i, f := range fields {
				fv := v.Field(i)
				if f.Optional {
					if fv.IsNil() {
						out = append(out, 0, 0, 0, 0)
						continue
					}
					var b []byte
					var err error
					if fv.Kind() == reflect.Ptr {
						b, err = f.Ref(fv, validate)
					} else {
						b, err = f.Ref(fv, validate)
					}
					if err != nil {
						return nil, err
					}
					out = append(out, le(4, uint64(len(b)))...)
					out = append(out, b...)
					continue
				}
				b, err := f.Ref(fv, validate)
				if err != nil {
					return nil, err
				}
				out = append(out, b...)
			}
			return out, nil
		},
		Canon: func(v reflect.Value) string {
			var parts []string
			for i, f := range fields {
				parts = append(parts, f.Canon(v.Field(i)))
			}
			return "{" + strings.Join(parts, ";") + "}"
		},
		InRange: func(v reflect.Value) bool {
			for i, f := range fields {
				if !inRange(f, v.Field(i)) {
					return false
				}
			}
			return true
		}}
}

func inRange(n *Node, v reflect.Value) bool {
	if n.InRange == nil {
		return true
	}
	switch v.Kind() {
	case reflect.Ptr, reflect.Interface:
		if v.IsNil() {
			return true
		}
	}
	return n.InRange(v)
}

// InRangeOf is the exported form of inRange.
func InRangeOf(n *Node, v reflect.Value) bool { return inRange(n, v) }

// FieldKinds returns the catalogue of field nodes a struct shape can be built from.
func FieldKinds() []*Node {
	leaves := Leaves()
	u16, u8 := byName(leaves, "uint16"), byName(leaves, "uint8")
	s8, b8 := str8Node(), bytes8Node()
	inner := Struct(u8, byName(leaves, "string/p1/0-0"))
	out := append([]*Node{}, leaves...)
	out = append(out, s8, b8, LexU16sNode(), LexMapNode(), AmoIfacesNode(), IfaceNode(false), IfaceNode(true),
		SliceOf(u16, 1, 0, 0), SliceOf(u16, 2, 1, 2), SliceOf(s8, 4, 0, 0), SliceOf(byName(leaves, "custom"), 1, 0, 0), SliceOf(inner, 1, 0, 0), SliceOf(IfaceNode(false), 1, 0, 0),
		ArrayOf(u16, 2, 1),
		MapOf(u8, u16, 1, 0, 0), MapOf(s8, b8, 2, 0, 0), MapOf(u16, s8, 4, 1, 2),
		inner, PtrTo(inner), Opt(PtrTo(inner)), Opt(IfaceNode(false)), Opt(IfaceNode(true)), EmbeddedNode(false), EmbeddedNode(true),
		Omit(PtrTo(inner)), Omit(byName(leaves, "bigint")), Omit(u16), Omit(Opt(PtrTo(inner))), Omit(s8), str8TaggedNode(),
	)
	return out
}

// Shapes enumerates top-level struct shapes: every single field kind, pairs (all ordered pairs when full, otherwise
// every kind paired with a rotating partner in both orders), and every kind nested one level deeper in each container.
func Shapes(full bool) []*Node {
	kinds := FieldKinds()
	var out []*Node
	for _, k := range kinds {
		out = append(out, Struct(k))
	}
	emb := 0
	for i, a := range kinds {
		for j, b := range kinds {
			if a.Embedded && b.Embedded {
				emb++
				continue // two embedded fields of the same type are not legal Go
			}
			if full || j == (i+1)%len(kinds) || j == (i+7)%len(kinds) || i == (j+3)%len(kinds) {
				out = append(out, Struct(a, b))
			}
		}
	}
	u8 := byName(kinds, "uint8")
	for _, k := range kinds {
		if k.Embedded || k.Optional {
			continue
		}
		in := Struct(k, u8)
		out = append(out,
			Struct(in, u8),               // nested plain
			Struct(Opt(PtrTo(in)), u8),   // nested optional
			Struct(SliceOf(in, 1, 0, 2)), // as slice element
		)
		if k.Type.Comparable() && k.Type.Kind() != reflect.Interface && k.Type.Kind() != reflect.Ptr && k.Type.Kind() != reflect.Struct {
			out = append(out, Struct(MapOf(str8Node(), in, 1, 0, 0)))
		}
	}
	if full {
		out = append(out, DeepShapes()...)
	}
	return out
}

// DeepShapes nests every non-embedded, non-optional field kind three struct levels deep through each container kind
// (plain struct, optional pointer, slice element), and mixes the containers.
func DeepShapes() []*Node {
	kinds := FieldKinds()
	u8 := byName(kinds, "uint8")
	var out []*Node
	for _, k := range kinds {
		if k.Embedded || k.Optional {
			continue
		}
		in := Struct(k, u8)
		out = append(out,
			Struct(Struct(in, u8), k),
			Struct(Opt(PtrTo(Struct(Opt(PtrTo(in)), u8))), u8),
			Struct(SliceOf(Struct(SliceOf(in, 1, 0, 2), u8), 1, 0, 2)),
			Struct(Opt(PtrTo(Struct(SliceOf(in, 2, 0, 2)))), SliceOf(Struct(Opt(PtrTo(in))), 1, 0, 2)),
		)
	}
	return out
}

// TripleCount is the number of three-field shapes (all ordered triples of field kinds).
func TripleCount() int { n := len(FieldKinds()); return n * n * n }

// Triple builds the i-th three-field shape from the catalogue kinds (nil when it is not legal Go: two embedded fields).
func Triple(kinds []*Node, i int) *Node {
	n := len(kinds)
	a, b, c := kinds[i%n], kinds[(i/n)%n], kinds[i/(n*n)]
	e := 0
	for _, k := range []*Node{a, b, c} {
		if k.Embedded {
			e++
		}
	}
	if e > 1 {
		return nil
	}
	return Struct(a, b, c)
}

// RoundTrip is a helper used by several checks: encode, decode into a fresh value.
func RoundTrip(api *serix.API, n *Node, v reflect.Value, validate bool) (enc []byte, dec reflect.Value, consumed int, encErr, decErr error) {
	var opts []serix.Option
	if validate {
		opts = append(opts, serix.WithValidation())
	}
	p := reflect.New(n.Type)
	p.Elem().Set(v)
	enc, encErr = api.Encode(context.Background(), p.Interface(), opts...)
	if encErr != nil {
		return
	}
	q := reflect.New(n.Type)
	consumed, decErr = api.Decode(context.Background(), enc, q.Interface(), opts...)
	dec = q.Elem()
	return
}

// ---------- byte-string spaces shared by C02 and C03 ----------

// Alphabet of the hostile byte strings.
var Alphabet = []byte{0x00, 0x01, 0x02, 0x7f, 0x80, 0xff}

// AllStrings calls f with every byte string over Alphabet of length 0..maxLen (f must not keep the slice).
func AllStrings(maxLen int, f func([]byte)) {
	buf := make([]byte, 0, maxLen)
	var rec func()
	rec = func() {
		f(buf)
		if len(buf) == maxLen {
			return
		}
		for _, a := range Alphabet {
			buf = append(buf, a)
			rec()
			buf = buf[:len(buf)-1]
		}
	}
	rec()
}

// Mutations calls f with every single-position substitution by an alphabet byte, every truncation and every
// one-byte extension of enc (f must not keep the slice).
func Mutations(enc []byte, f func([]byte)) {
	m := make([]byte, len(enc)+1)
	for i := range enc {
		for _, a := range Alphabet {
			if enc[i] == a {
				continue
			}
			copy(m, enc)
			m[i] = a
			f(m[:len(enc)])
		}
	}
	for n := 0; n < len(enc); n++ {
		copy(m, enc)
		f(m[:n])
	}
	for _, a := range Alphabet {
		copy(m, enc)
		m[len(enc)] = a
		f(m[:len(enc)+1])
	}
}

// Decode decodes b into a fresh value of the node's type.
func Decode(api *serix.API, n *Node, b []byte, validate bool) (reflect.Value, int, error) {
	var opts []serix.Option
	if validate {
		opts = append(opts, serix.WithValidation())
	}
	q := reflect.New(n.Type)
	consumed, err := api.Decode(context.Background(), b, q.Interface(), opts...)
	return q.Elem(), consumed, err
}

// Encode encodes v (of the node's type).
func Encode(api *serix.API, n *Node, v reflect.Value, validate bool) ([]byte, error) {
	var opts []serix.Option
	if validate {
		opts = append(opts, serix.WithValidation())
	}
	p := reflect.New(n.Type)
	p.Elem().Set(v)
	return api.Encode(context.Background(), p.Interface(), opts...)
}
