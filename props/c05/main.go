// C05 — KVStore operations are linearizable under concurrent use.
package main

import (
	"encoding/json"
	"fmt"
	"os"
	"os/exec"
	"path/filepath"
	"strings"

	"github.com/iotaledger/hive.go/kvstore"
	"github.com/iotaledger/hive.go/kvstore/flushkv"
	"github.com/iotaledger/hive.go/kvstore/mapdb"

	"verif/engine/cli"
	"verif/engine/lin"
	"verif/engine/sched"
	"verif/vrt"
)

// view is a store view plus its realm.
type view struct {
	s     kvstore.KVStore
	realm []byte
}

type world struct {
	rec   *lin.Recorder
	root  view
	v00   view
	init  map[string]string
	store string
	pick  [2]view
}

func newWorld(store string, init map[string]string) *world {
	base := mapdb.NewMapDB()
	var s kvstore.KVStore = base
	if store == "flushkv" {
		s = flushkv.New(base)
	}
	w := &world{rec: &lin.Recorder{}, init: map[string]string{}, store: store}
	w.root = view{s, nil}
	// the caller's realm slice has spare capacity (legal, and what WithExtendedRealm produces as well): a view must
	// never write behind its realm
	realm := make([]byte, 1, 16)
	v, err := s.WithRealm(realm)
	if err != nil {
		panic(err)
	}
	w.v00 = view{v, []byte{0x00}}
	for k, val := range init {
		if err := base.Set([]byte(k), []byte(val)); err != nil {
			panic(err)
		}
		w.init[lin.Hex([]byte(k))] = lin.Hex([]byte(val))
	}
	return w
}

func (w *world) full(v view, key []byte) string {
	return lin.Hex(append(append([]byte{}, v.realm...), key...))
}

func must(err error) {
	if err != nil {
		panic(err)
	}
}

func (w *world) set(c int, v view, key, val string) {
	t := w.rec.Call()
	must(v.s.Set([]byte(key), []byte(val)))
	w.rec.Return(c, t, lin.Input{Op: "set", Key: w.full(v, []byte(key)), Val: lin.Hex([]byte(val))}, lin.Output{})
}

func (w *world) get(c int, v view, key string) {
	t := w.rec.Call()
	val, err := v.s.Get([]byte(key))
	if err != nil && err != kvstore.ErrKeyNotFound {
		panic(err)
	}
	w.rec.Return(c, t, lin.Input{Op: "get", Key: w.full(v, []byte(key))}, lin.Output{Val: lin.Hex(val), Found: err == nil})
}

func (w *world) has(c int, v view, key string) {
	t := w.rec.Call()
	ok, err := v.s.Has([]byte(key))
	must(err)
	w.rec.Return(c, t, lin.Input{Op: "has", Key: w.full(v, []byte(key))}, lin.Output{Found: ok})
}

func (w *world) del(c int, v view, key string) {
	t := w.rec.Call()
	must(v.s.Delete([]byte(key)))
	w.rec.Return(c, t, lin.Input{Op: "delete", Key: w.full(v, []byte(key))}, lin.Output{})
}

func (w *world) delPrefix(c int, v view, p string) {
	t := w.rec.Call()
	must(v.s.DeletePrefix([]byte(p)))
	w.rec.Return(c, t, lin.Input{Op: "deleteprefix", Key: w.full(v, []byte(p))}, lin.Output{})
}

func (w *world) clear(c int, v view) {
	t := w.rec.Call()
	must(v.s.Clear())
	w.rec.Return(c, t, lin.Input{Op: "deleteprefix", Key: w.full(v, nil)}, lin.Output{})
}

func (w *world) iterate(c int, v view, p string, back bool) {
	var dir []kvstore.IterDirection
	if back {
		dir = append(dir, kvstore.IterDirectionBackward)
	}
	t := w.rec.Call()
	var ks, vs []string
	must(v.s.Iterate([]byte(p), func(k, val []byte) bool {
		ks, vs = append(ks, lin.Hex(k)), append(vs, lin.Hex(val))
		vrt.Yield() // the consumer may be slow: other threads can run between two entries
		return true
	}, dir...))
	w.rec.Return(c, t, lin.Input{Op: "iterate", Key: w.full(v, []byte(p)), Strip: 2 * len(v.realm), Back: back}, lin.Output{Pairs: lin.Pairs(ks, vs)})
}

func (w *world) iterateKeys(c int, v view, p string) {
	t := w.rec.Call()
	var ks []string
	must(v.s.IterateKeys([]byte(p), func(k []byte) bool {
		ks = append(ks, lin.Hex(k))
		vrt.Yield()
		return true
	}))
	w.rec.Return(c, t, lin.Input{Op: "iteratekeys", Key: w.full(v, []byte(p)), Strip: 2 * len(v.realm)}, lin.Output{Pairs: lin.Pairs(ks, nil)})
}

type bop struct {
	del      bool
	key, val string
}

func (w *world) batch(c int, v view, ops ...bop) {
	b, err := v.s.Batched()
	must(err)
	last := map[string]lin.Input{}
	var order []string
	for _, o := range ops {
		fk := w.full(v, []byte(o.key))
		if _, seen := last[fk]; !seen {
			order = append(order, fk)
		}
		if o.del {
			must(b.Delete([]byte(o.key)))
			last[fk] = lin.Input{Op: "delete", Key: fk}
		} else {
			must(b.Set([]byte(o.key), []byte(o.val)))
			last[fk] = lin.Input{Op: "set", Key: fk, Val: lin.Hex([]byte(o.val))}
		}
	}
	t := w.rec.Call()
	must(b.Commit())
	var ins []lin.Input
	for _, fk := range order {
		ins = append(ins, last[fk])
	}
	w.rec.ReturnMany(c, t, ins)
}

// finish reads the final contents (sequentially, after all threads) and checks the history.
func (w *world) finish() {
	for _, k := range []string{"\x00\x01", "\x00\x02", "\x00", "\x01"} {
		w.get(9, w.root, k)
	}
	w.iterate(9, w.root, "", false)
	if ok, hist := w.rec.Check(w.init); !ok {
		vrt.Fail("not-linearizable", "history is not linearizable w.r.t. the ordered-map model:\n%s", hist)
	}
}

const (
	k1 = "\x00\x01" // root key; the same stored key as "\x01" through the 00 view
	k2 = "\x00\x02"
)

type scenario struct {
	name string
	init map[string]string
	thr  []func(w *world)
	thor bool
	// views: the two threads' views are picked by the explorer (same object or different objects)
	views bool
}

func scenarios() []*sched.Scenario {
	defs := []scenario{
		{name: "set-get-delete", thr: []func(w *world){
			func(w *world) { w.set(1, w.root, k1, "a") },
			func(w *world) { w.get(2, w.v00, "\x01"); w.get(2, w.v00, "\x01") },
			func(w *world) { w.del(3, w.v00, "\x01") },
		}},
		{name: "set-set-get-get", thr: []func(w *world){
			func(w *world) { w.set(1, w.root, k1, "a") },
			func(w *world) { w.set(2, w.v00, "\x01", "b") },
			func(w *world) { w.get(3, w.root, k1); w.get(3, w.v00, "\x01") },
		}},
		{name: "iterate-vs-two-sets", init: map[string]string{k1: "a", k2: "a"}, thr: []func(w *world){
			func(w *world) { w.set(1, w.root, k1, "b"); w.set(1, w.root, k2, "b") },
			func(w *world) { w.iterate(2, w.v00, "", false) },
		}},
		{name: "iterate-back-vs-set-delete", init: map[string]string{k1: "a"}, thr: []func(w *world){
			func(w *world) { w.set(1, w.v00, "\x02", "b"); w.del(1, w.root, k1) },
			func(w *world) { w.iterate(2, w.root, "\x00", true) },
		}},
		{name: "iteratekeys-vs-set-delete", init: map[string]string{k1: "a"}, thr: []func(w *world){
			func(w *world) { w.set(1, w.v00, "\x02", "b"); w.del(1, w.root, k1) },
			func(w *world) { w.iterateKeys(2, w.v00, "") },
		}},
		{name: "deleteprefix-vs-set-has", init: map[string]string{k1: "a"}, thr: []func(w *world){
			func(w *world) { w.delPrefix(1, w.v00, "") },
			func(w *world) { w.set(2, w.root, k2, "b"); w.has(2, w.root, k1) },
		}},
		{name: "clear-vs-set-has-get", init: map[string]string{k1: "a", "\x01": "x"}, thr: []func(w *world){
			func(w *world) { w.clear(1, w.v00) },
			func(w *world) { w.set(2, w.v00, "\x02", "b"); w.has(2, w.root, k1) },
			func(w *world) { w.get(3, w.root, "\x01"); w.get(3, w.root, k2) },
		}},
		{name: "batch-vs-iterate-get", init: map[string]string{k2: "a"}, thr: []func(w *world){
			func(w *world) { w.batch(1, w.root, bop{key: k1, val: "a"}, bop{del: true, key: k2}) },
			func(w *world) { w.iterate(2, w.v00, "", false) },
			func(w *world) { w.get(3, w.root, k2); w.get(3, w.root, k1) },
		}},
		{name: "batch-vs-batch", init: map[string]string{k2: "a"}, thr: []func(w *world){
			func(w *world) { w.batch(1, w.root, bop{key: k1, val: "a"}, bop{key: k2, val: "c"}) },
			func(w *world) { w.batch(2, w.v00, bop{del: true, key: "\x01"}, bop{key: "\x02", val: "d"}) },
		}},
		// a consumer that reads the store again from inside its callback (e.g. copying between realms) while a writer is
		// waiting: the iteration must not hold the map lock across callbacks
		{name: "iterate-consumer-reads-vs-writer", init: map[string]string{k1: "a", k2: "a"}, thr: []func(w *world){
			func(w *world) {
				must(w.v00.s.Iterate(kvstore.EmptyPrefix, func(k, v []byte) bool {
					vrt.Yield()
					_, err := w.root.s.Has([]byte(k2))
					must(err)
					return true
				}))
				must(w.root.s.IterateKeys(kvstore.EmptyPrefix, func(k []byte) bool {
					vrt.Yield()
					_, err := w.v00.s.Get([]byte("\x01"))
					if err != nil && err != kvstore.ErrKeyNotFound {
						panic(err)
					}
					return true
				}))
			},
			func(w *world) { w.set(2, w.root, k2, "b"); w.del(2, w.v00, "\x01") },
		}},
		// committing a batch without queued mutations (fresh, or emptied by Cancel) is a no-op that must leave the view usable
		{name: "empty-and-cancelled-batch-commit", init: map[string]string{k2: "a"}, thr: []func(w *world){
			func(w *world) {
				w.batch(1, w.root)
				b, err := w.v00.s.Batched()
				must(err)
				must(b.Set([]byte("\x02"), []byte("z")))
				b.Cancel()
				must(b.Commit())
				w.set(1, w.root, k1, "b")
				w.get(1, w.v00, "\x02")
			},
			func(w *world) { w.get(2, w.v00, "\x01"); w.has(2, w.root, k2) },
		}},
		// one batch object used by two goroutines (its methods are synchronised): a mutation queued while another goroutine
		// commits is written by that commit or by the next one, never dropped
		{name: "shared-batch-set-vs-commit", thr: []func(w *world){
			func(w *world) {
				b, err := w.root.s.Batched()
				must(err)
				t := w.rec.Call()
				vrt.Par(func() {
					must(b.Set([]byte(k1), []byte("c")))
					must(b.Commit())
				}, func() {
					must(b.Set([]byte(k2), []byte("d")))
				})
				must(b.Commit())
				w.rec.ReturnMany(1, t, []lin.Input{{Op: "set", Key: lin.Hex([]byte(k1)), Val: lin.Hex([]byte("c"))}, {Op: "set", Key: lin.Hex([]byte(k2)), Val: lin.Hex([]byte("d"))}})
				for _, kv := range [][2]string{{k1, "c"}, {k2, "d"}} {
					if got, err := w.root.s.Get([]byte(kv[0])); err != nil || string(got) != kv[1] {
						vrt.Fail("batch|queued-write-lost", "key %x queued on a shared batch before its last Commit reads (%q, %v) afterwards, want %q", kv[0], got, err, kv[1])
					}
				}
			},
		}},
		{name: "batch-vs-deleteprefix-set", thor: true, init: map[string]string{k2: "a"}, thr: []func(w *world){
			func(w *world) { w.batch(1, w.v00, bop{key: "\x01", val: "a"}, bop{key: "\x02", val: "b"}) },
			func(w *world) { w.delPrefix(2, w.root, "\x00") },
			func(w *world) { w.set(3, w.root, k1, "z"); w.has(3, w.v00, "\x02") },
		}},
		{name: "4-threads-mixed", thor: true, init: map[string]string{k1: "a"}, thr: []func(w *world){
			func(w *world) { w.set(1, w.root, k1, "b") },
			func(w *world) { w.del(2, w.v00, "\x01") },
			func(w *world) { w.get(3, w.root, k1); w.has(3, w.v00, "\x01") },
			func(w *world) { w.iterate(4, w.root, "", false) },
		}},
	}
	// every unordered pair of operations, one per thread, colliding on k1; which of the two overlapping views each
	// thread uses (same view object or different ones) is a free choice of the explorer
	type opdef struct {
		name string
		run  func(w *world, c int, v view)
	}
	rel := func(v view, rootKey string) string { return rootKey[len(v.realm):] }
	ops := []opdef{
		{"get", func(w *world, c int, v view) { w.get(c, v, rel(v, k1)) }},
		{"has", func(w *world, c int, v view) { w.has(c, v, rel(v, k1)) }},
		{"iterate", func(w *world, c int, v view) { w.iterate(c, v, "", false) }},
		{"iteratekeys", func(w *world, c int, v view) { w.iterateKeys(c, v, "") }},
		{"set", func(w *world, c int, v view) { w.set(c, v, rel(v, k1), "b") }},
		{"delete", func(w *world, c int, v view) { w.del(c, v, rel(v, k1)) }},
		{"deleteprefix", func(w *world, c int, v view) { w.delPrefix(c, v, rel(v, "\x00")) }},
		{"clear", func(w *world, c int, v view) { w.clear(c, v) }},
		{"batch", func(w *world, c int, v view) {
			w.batch(c, v, bop{key: rel(v, k1), val: "c"}, bop{del: true, key: rel(v, k2)})
		}},
		// a view derived while the other thread is inside an operation on the parent, then used
		{"newview+set+get", func(w *world, c int, v view) {
			ns, err := v.s.WithExtendedRealm([]byte{0x05})
			must(err)
			nv := view{ns, append(append([]byte{}, v.realm...), 0x05)}
			w.set(c, nv, "\x01", "n")
			w.get(c, nv, "\x01")
		}},
	}
	for i, a := range ops {
		for _, b := range ops[i:] {
			a, b := a, b
			defs = append(defs, scenario{name: "pair/" + a.name + "-vs-" + b.name, init: map[string]string{k1: "a", k2: "a", "\x01": "x"}, views: true, thr: []func(w *world){
				func(w *world) { a.run(w, 1, w.pick[0]) },
				func(w *world) { b.run(w, 2, w.pick[1]) },
			}})
		}
	}
	var out []*sched.Scenario
	for _, store := range []string{"mapdb", "flushkv"} {
		for _, d := range defs {
			store, d := store, d
			out = append(out, &sched.Scenario{
				Name:         fmt.Sprintf("%s/%s", d.name, store),
				ThoroughOnly: d.thor,
				Run: func() {
					w := newWorld(store, d.init)
					if d.views {
						vs := []view{w.root, w.v00}
						c := vrt.Choose(4, 0)
						w.pick = [2]view{vs[c&1], vs[c>>1]}
					}
					var fs []func()
					for _, f := range d.thr {
						f := f
						fs = append(fs, func() { f(w) })
					}
					vrt.Par(fs...)
					w.finish()
				},
			})
		}
	}
	return out
}

// racePart runs the free-running -race binary (sampling; only decides "no data race was observed").
func racePart() *cli.Part {
	return &cli.Part{Name: "race-pass", Procs: 16, Run: func(c *cli.Ctx) *cli.PartResult {
		secs := 8
		if c.Thorough() {
			secs = 120
		}
		self, _ := os.Executable()
		cmd := exec.Command(filepath.Join(filepath.Dir(self), "c05race"), "-secs", fmt.Sprint(secs), "-seed", fmt.Sprint(c.Seed+1))
		cmd.Env = append(os.Environ(), "GORACE=exitcode=66 halt_on_error=1", "GOMAXPROCS=16")
		out, err := cmd.CombinedOutput()
		pr := &cli.PartResult{Engine: "R", Exhaustive: false, Notes: []string{"free-running stress under the Go race detector: sampling, supplementary to the model-checking parts"}}
		var rounds, ops int64
		for _, l := range strings.Split(string(out), "\n") {
			fmt.Sscanf(l, "race-pass rounds=%d operations=%d", &rounds, &ops)
		}
		pr.Evaluations, pr.Distinct, pr.Traces = ops, rounds, rounds
		pr.Samples = []any{fmt.Sprintf("%d rounds of 2/8/16 goroutines x 150 random operations through 3 overlapping views (mapdb and flushkv)", rounds)}
		if ee, ok := err.(*exec.ExitError); ok && ee.ExitCode() == 66 {
			frames := []string{}
			for _, l := range strings.Split(string(out), "\n") {
				l = strings.TrimSpace(l)
				if strings.HasPrefix(l, "github.com/iotaledger/hive.go/") && len(frames) < 2 {
					frames = append(frames, strings.TrimPrefix(strings.SplitN(l, "(", 2)[0], "github.com/iotaledger/hive.go/"))
				}
			}
			raw, _ := json.Marshal(map[string]any{"report": string(out)})
			pr.Violations = append(pr.Violations, &cli.Violation{Part: "race-pass", Engine: "R", Signature: "data-race|" + strings.Join(frames, "|"), Message: "the Go race detector reported a data race:\n" + tailStr(string(out), 1500), Replay: raw})
		} else if ok && ee.ExitCode() == 67 {
			raw, _ := json.Marshal(map[string]any{"report": tailStr(string(out), 6000)})
			pr.Violations = append(pr.Violations, &cli.Violation{Part: "race-pass", Engine: "R", Signature: "free-run|hang", Message: "a round of the free-running pass made no progress for 30 s (normally milliseconds): deadlock among the store's callers\n" + tailStr(string(out), 3000), Replay: raw})
		} else if err != nil {
			pr.Error = "race binary failed: " + err.Error() + ": " + tailStr(string(out), 400)
		}
		return pr
	}}
}

func tailStr(s string, n int) string {
	if len(s) > n {
		return s[:n]
	}
	return s
}

func main() {
	cli.Main(&cli.Property{
		ID: "C05", Level: "model_checking", Scenarios: scenarios(), Parts: []*cli.Part{racePart()},
		QuickBound: 2, ThoroughBound: 3, QuickUnbounded: true, ThoroughUnbounded: true, Cache: true, QuickSecs: 45, ThoroughSecs: 900,
		RaceHB: &cli.RaceHB{QuickBound: 1, ThoroughBound: 2, ThoroughUnbounded: true},
		Rule:   "every interleaving with at most b preemptions (thorough: additionally all interleavings with state caching) of 2-4 threads issuing 1-2 operations each through two overlapping views of one store (mapdb and flushkv over mapdb); each complete execution's call/return history is checked with porcupine against the ordered-map model (committed batch = one atomic write per key inside the Commit interval, Iterate = atomic snapshot); distinct = distinct (outcome, observation log)",
		Assumptions: []string{
			"vsync/vatomic shims model sync faithfully (selftest); sequential consistency",
			"map iteration order inside batch Commit is owned by the explorer (vinstr mapRanges)",
		},
		NotReached: []string{"exhaustive exploration for 5-16 goroutines", "data-race freedom is only observed, not decided: the race-pass part runs the store free under the Go race detector (sampling)"},
	})
}
