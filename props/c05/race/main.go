// Free-running race pass for C05 (sampling, supplementary): many goroutines issue random operations through
// overlapping views of one store; built with -race, any report makes the process exit with code 66.
package main

import (
	"flag"
	"fmt"
	"math/rand"
	"os"
	"runtime"
	"sync"
	"time"

	"github.com/iotaledger/hive.go/kvstore"
	"github.com/iotaledger/hive.go/kvstore/flushkv"
	"github.com/iotaledger/hive.go/kvstore/mapdb"
)

func main() {
	secs := flag.Int("secs", 5, "seconds to run")
	seed := flag.Int64("seed", 1, "seed")
	flag.Parse()
	deadline := time.Now().Add(time.Duration(*secs) * time.Second)
	rounds, ops := 0, 0
	for time.Now().Before(deadline) {
		for _, wrapped := range []bool{false, true} {
			for _, workers := range []int{2, 8, 16} {
				var root kvstore.KVStore = mapdb.NewMapDB()
				if wrapped {
					root = flushkv.New(root)
				}
				v1, _ := root.WithRealm([]byte{0})
				v2, _ := v1.WithExtendedRealm([]byte{1})
				views := []kvstore.KVStore{root, v1, v2}
				keys := [][]byte{{}, {0}, {0, 1}, {1}, {0, 1, 2}}
				var wg sync.WaitGroup
				for w := 0; w < workers; w++ {
					wg.Add(1)
					rng := rand.New(rand.NewSource(*seed*1000003 + int64(rounds*131+w)))
					go func() {
						defer wg.Done()
						for i := 0; i < 150; i++ {
							v := views[rng.Intn(len(views))]
							k := keys[rng.Intn(len(keys))]
							switch rng.Intn(10) {
							case 0, 1:
								_ = v.Set(k, []byte{byte(i)})
							case 2:
								_, _ = v.Get(k)
							case 3:
								_, _ = v.Has(k)
							case 4:
								_ = v.Delete(k)
							case 5:
								_ = v.DeletePrefix(k)
							case 6:
								_ = v.Iterate(k, func(key, value []byte) bool { _ = append(key, value...); return true })
							case 7:
								_ = v.IterateKeys(k, func(key []byte) bool { return len(key) < 3 }, kvstore.IterDirectionBackward)
							case 8:
								if b, err := v.Batched(); err == nil {
									_ = b.Set(k, []byte{1})
									_ = b.Delete(keys[rng.Intn(len(keys))])
									if rng.Intn(4) == 0 {
										b.Cancel()
									} else {
										_ = b.Commit()
									}
								}
							case 9:
								if rng.Intn(8) == 0 {
									_ = v.Clear()
								} else {
									_ = v.Flush()
								}
							}
						}
					}()
				}
				finished := make(chan struct{})
				go func() { wg.Wait(); close(finished) }()
				select {
				case <-finished:
				case <-time.After(30 * time.Second):
					fmt.Printf("race-pass rounds=%d operations=%d\nHANG: a round of %d goroutines (wrapped=%v) did not finish within 30 s\n", rounds, ops, workers, wrapped)
					buf := make([]byte, 1<<16)
					fmt.Printf("%s\n", buf[:runtime.Stack(buf, true)])
					os.Exit(67)
				}
				rounds++
				ops += workers * 150
			}
		}
	}
	fmt.Printf("race-pass rounds=%d operations=%d\n", rounds, ops)
}
