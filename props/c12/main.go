// C12 — remaining containers are equivalent to their abstract models.
package main

import (
	"errors"
	"fmt"
	"sort"
	"strings"
	"time"

	"github.com/iotaledger/hive.go/core/memstorage"
	"github.com/iotaledger/hive.go/ds/bytesfilter"
	"github.com/iotaledger/hive.go/ds/onchangemap"
	"github.com/iotaledger/hive.go/ds/priorityqueue"
	"github.com/iotaledger/hive.go/ds/queue"
	"github.com/iotaledger/hive.go/ds/randommap"
	"github.com/iotaledger/hive.go/ds/ringbuffer"
	"github.com/iotaledger/hive.go/ds/shrinkingmap"
	"github.com/iotaledger/hive.go/ds/stack"
	"github.com/iotaledger/hive.go/ds/timeheap"
	"github.com/iotaledger/hive.go/ds/walker"
	"github.com/iotaledger/hive.go/runtime/timed"
	"github.com/iotaledger/hive.go/web/subscriptionmanager"

	"verif/engine/cli"
	"verif/engine/hist"
	"verif/engine/sched"
	"verif/vrt"
)

func sortedInts(m map[int]int) string {
	var ks []int
	for k := range m {
		ks = append(ks, k)
	}
	sort.Ints(ks)
	var b strings.Builder
	for _, k := range ks {
		fmt.Fprintf(&b, "%d=%d,", k, m[k])
	}
	return b.String()
}

func cp(m map[int]int) map[int]int {
	o := map[int]int{}
	for k, v := range m {
		o[k] = v
	}
	return o
}

// ---------------- ShrinkingMap ----------------

func shrinkingMapSys(ratio float32, count int) sysDef {
	var names []string
	type op struct {
		kind string
		k, v int
	}
	var ops []op
	for k := 1; k <= 3; k++ {
		for v := 1; v <= 2; v++ {
			ops = append(ops, op{"set", k, v})
			names = append(names, fmt.Sprintf("Set(%d,%d)", k, v))
		}
		for _, kind := range []string{"delete", "deleteandreturn", "delete-cond-false", "getorcreate", "compute"} {
			ops = append(ops, op{kind, k, 9})
			names = append(names, fmt.Sprintf("%s(%d)", kind, k))
		}
	}
	for _, kind := range []string{"clear", "shrink", "popall"} {
		ops = append(ops, op{kind, 0, 0})
		names = append(names, kind)
	}
	return sysDef{name: fmt.Sprintf("shrinkingmap/ratio%v-count%d", ratio, count), names: names, depth: 30, merge: true, mk: func() *simple {
		var opts []shrinkingmap.Option
		if ratio != 0 {
			opts = append(opts, shrinkingmap.WithShrinkingThresholdRatio(ratio))
		}
		if count != 0 {
			opts = append(opts, shrinkingmap.WithShrinkingThresholdCount(count))
		}
		real := shrinkingmap.New[int, int](opts...)
		model := map[int]int{}
		deletes := 0 // deletions since the last shrink/clear are part of the key because they drive shrinking
		return &simple{
			key: func() string { return sortedInts(model) + fmt.Sprint(deletes%4) },
			apply: func(i int, check bool) string {
				o := ops[i]
				cls := "ShrinkingMap." + o.kind
				_, present := model[o.k]
				switch o.kind {
				case "set":
					created := real.Set(o.k, o.v)
					if check && created == present {
						return fmt.Sprintf("%s|result: Set returned wasCreated=%v, key present=%v", cls, created, present)
					}
					model[o.k] = o.v
				case "delete":
					d := real.Delete(o.k)
					if check && d != present {
						return fmt.Sprintf("%s|result: Delete returned %v, present=%v", cls, d, present)
					}
					if present {
						deletes++
					}
					delete(model, o.k)
				case "delete-cond-false":
					if d := real.Delete(o.k, func() bool { return false }); check && d {
						return cls + "|result: conditional Delete with a false condition deleted"
					}
				case "deleteandreturn":
					v, d := real.DeleteAndReturn(o.k)
					if check && (d != present || (d && v != model[o.k])) {
						return fmt.Sprintf("%s|result: DeleteAndReturn gave (%d,%v), model (%d,%v)", cls, v, d, model[o.k], present)
					}
					if present {
						deletes++
					}
					delete(model, o.k)
				case "getorcreate":
					v, created := real.GetOrCreate(o.k, func() int { return 7 })
					if check && (created == present || (present && v != model[o.k]) || (!present && v != 7)) {
						return fmt.Sprintf("%s|result: GetOrCreate gave (%d,%v), model (%d,%v)", cls, v, created, model[o.k], present)
					}
					if !present {
						model[o.k] = 7
					}
				case "compute":
					var sc int
					var se bool
					v := real.Compute(o.k, func(c int, e bool) int { sc, se = c, e; return c + 1 })
					if check && (se != present || sc != model[o.k] || v != model[o.k]+1) {
						return fmt.Sprintf("%s|result: Compute saw (%d,%v) returned %d, model (%d,%v)", cls, sc, se, v, model[o.k], present)
					}
					model[o.k]++
				case "clear":
					real.Clear()
					model = map[int]int{}
					deletes = 0
				case "shrink":
					real.Shrink()
					deletes = 0
				case "popall":
					seen := map[int]bool{}
					for range 4 {
						k, v, ex := real.Pop()
						if !ex {
							break
						}
						if check && (seen[k] || model[k] != v) {
							return fmt.Sprintf("%s|result: Pop returned (%d,%d) which is not a current entry", cls, k, v)
						}
						if _, ok := model[k]; !ok && check {
							return fmt.Sprintf("%s|result: Pop returned missing key %d", cls, k)
						}
						seen[k] = true
						delete(model, k)
						deletes++
					}
					if check && len(model) != 0 {
						return fmt.Sprintf("%s|result: Pop reported empty with %d entries left", cls, len(model))
					}
				}
				if !check {
					return ""
				}
				// probes
				if got := sortedInts(real.AsMap()); got != sortedInts(model) {
					return fmt.Sprintf("%s|contents: map holds %s, model %s", cls, got, sortedInts(model))
				}
				if real.Size() != len(model) || real.IsEmpty() != (len(model) == 0) {
					return fmt.Sprintf("%s|size: Size %d, model %d", cls, real.Size(), len(model))
				}
				fe := map[int]int{}
				real.ForEach(func(k, v int) bool { fe[k] = v; return true })
				ks := append([]int{}, real.Keys()...)
				vs := append([]int{}, real.Values()...)
				sort.Ints(ks)
				sort.Ints(vs)
				var mk, mv []int
				for k, v := range model {
					mk, mv = append(mk, k), append(mv, v)
				}
				sort.Ints(mk)
				sort.Ints(mv)
				nk := 0
				real.ForEachKey(func(int) bool { nk++; return true })
				if sortedInts(fe) != sortedInts(model) || fmt.Sprint(ks) != fmt.Sprint(append([]int{}, mk...)) || fmt.Sprint(vs) != fmt.Sprint(append([]int{}, mv...)) || nk != len(model) {
					return fmt.Sprintf("%s|iteration: ForEach %v Keys %v Values %v ForEachKey %d, model %s", cls, fe, ks, vs, nk, sortedInts(model))
				}
				for k := 1; k <= 3; k++ {
					v, ex := real.Get(k)
					mv, mex := model[k]
					if ex != mex || v != mv || real.Has(k) != mex {
						return fmt.Sprintf("%s|get: Get(%d)=(%d,%v), model (%d,%v)", cls, k, v, ex, mv, mex)
					}
				}
				return ""
			},
		}
	}}
}

// ---------------- RandomMap ----------------

func randomMapSys() sysDef {
	type op struct {
		kind string
		k, v int
	}
	var ops []op
	var names []string
	for k := 1; k <= 4; k++ {
		for v := 1; v <= 2; v++ {
			ops = append(ops, op{"set", k, v})
			names = append(names, fmt.Sprintf("Set(%d,%d)", k, v))
		}
		ops = append(ops, op{"delete", k, 0})
		names = append(names, fmt.Sprintf("Delete(%d)", k))
	}
	// the random picks are operations too (applied also when a history is replayed): they are read-only by contract,
	// so whatever comes after them must behave as if they had not happened
	for n := 1; n <= 3; n++ {
		ops = append(ops, op{"sample", n, 0})
		names = append(names, fmt.Sprintf("RandomUniqueEntries(%d)+RandomKey", n))
	}
	return sysDef{name: "randommap", names: names, depth: 30, merge: true, mk: func() *simple {
		real := randommap.New[int, int]()
		model := map[int]int{}
		var order []int // the key slice order matters for the implementation's bookkeeping: keep it in the key
		return &simple{
			key: func() string { return sortedInts(model) + fmt.Sprint(real.Keys()) },
			apply: func(i int, check bool) string {
				o := ops[i]
				cls := "RandomMap." + o.kind
				mv, present := model[o.k]
				if o.kind == "sample" {
					_ = real.RandomUniqueEntries(o.k)
					_, _ = real.RandomKey()
					_, _ = real.RandomEntry()
				} else if o.kind == "set" {
					real.Set(o.k, o.v)
					model[o.k] = o.v
				} else {
					v, d := real.Delete(o.k)
					if check && (d != present || (d && v != mv)) {
						return fmt.Sprintf("%s|result: Delete(%d) returned (%d,%v), model (%d,%v)", cls, o.k, v, d, mv, present)
					}
					delete(model, o.k)
				}
				_ = order
				if !check {
					return ""
				}
				if real.Size() != len(model) {
					return fmt.Sprintf("%s|size: Size %d, model %d", cls, real.Size(), len(model))
				}
				for k := 1; k <= 4; k++ {
					v, ex := real.Get(k)
					mv, mex := model[k]
					if ex != mex || v != mv || real.Has(k) != mex {
						return fmt.Sprintf("%s|get: Get(%d)=(%d,%v), model (%d,%v)", cls, k, v, ex, mv, mex)
					}
				}
				ks := append([]int{}, real.Keys()...)
				sort.Ints(ks)
				var mk []int
				for k := range model {
					mk = append(mk, k)
				}
				sort.Ints(mk)
				if fmt.Sprint(ks) != fmt.Sprint(append([]int{}, mk...)) {
					return fmt.Sprintf("%s|keys: Keys() = %v is not a permutation of the model keys %v", cls, real.Keys(), mk)
				}
				fe := map[int]int{}
				real.ForEach(func(k, v int) bool { fe[k] = v; return true })
				if sortedInts(fe) != sortedInts(model) {
					return fmt.Sprintf("%s|foreach: ForEach gave %v, model %v", cls, fe, model)
				}
				vals := append([]int{}, real.Values()...)
				if len(vals) != len(model) {
					return fmt.Sprintf("%s|values: Values() has %d entries, model %d", cls, len(vals), len(model))
				}
				for rep := 0; rep < 8; rep++ {
					k, ex := real.RandomKey()
					if ex != (len(model) > 0) {
						return fmt.Sprintf("%s|randomkey: RandomKey exists=%v with %d entries", cls, ex, len(model))
					}
					if ex {
						if _, ok := model[k]; !ok {
							return fmt.Sprintf("%s|randomkey: RandomKey returned %d which is not a member (model %v)", cls, k, model)
						}
					}
					v, ex := real.RandomEntry()
					if ex != (len(model) > 0) {
						return fmt.Sprintf("%s|randomentry: RandomEntry exists=%v with %d entries", cls, ex, len(model))
					}
					if ex {
						found := false
						for _, mv := range model {
							if mv == v {
								found = true
							}
						}
						if !found {
							return fmt.Sprintf("%s|randomentry: RandomEntry returned %d which is no member value", cls, v)
						}
					}
				}
				// values are not unique: make entries distinguishable through a parallel map of unique values
				for n := 0; n <= 5; n++ {
					res := real.RandomUniqueEntries(n)
					want := n
					if len(model) < want {
						want = len(model)
					}
					if len(res) != want {
						return fmt.Sprintf("%s|randomunique: RandomUniqueEntries(%d) returned %d entries with %d members", cls, n, len(res), len(model))
					}
					// multiset inclusion
					avail := map[int]int{}
					for _, mv := range model {
						avail[mv]++
					}
					for _, v := range res {
						if avail[v] == 0 {
							return fmt.Sprintf("%s|randomunique: RandomUniqueEntries(%d) = %v is not a set of distinct entries of %v", cls, n, res, model)
						}
						avail[v]--
					}
				}
				return ""
			},
		}
	}}
}

// ---------------- PriorityQueue ----------------

type prio int

func (p prio) CompareTo(o prio) int { return int(p) - int(o) }

type pqItem struct {
	id, prio int
	live     bool
}

func priorityQueueSys(flavour string) sysDef {
	// operations: Push(prio 1..3) (max 4 pushes), Pop, PopUntil(p), PopAll, Remove(handle i)
	var names []string
	type op struct {
		kind string
		a    int
	}
	var ops []op
	for p := 1; p <= 3; p++ {
		ops = append(ops, op{"push", p})
		names = append(names, fmt.Sprintf("Push(prio %d)", p))
	}
	ops = append(ops, op{"pop", 0}, op{"popall", 0})
	names = append(names, "Pop", "PopAll")
	for p := 0; p <= 3; p++ {
		ops = append(ops, op{"popuntil", p})
		names = append(names, fmt.Sprintf("PopUntil(%d)", p))
	}
	if flavour == "ds" {
		for h := 0; h < 4; h++ {
			ops = append(ops, op{"remove", h})
			names = append(names, fmt.Sprintf("remove(handle %d)", h))
		}
	}
	base := time.Unix(1000, 0)
	return sysDef{name: "priorityqueue/" + flavour, names: names, depth: 30, merge: true, mk: func() *simple {
		var items []*pqItem
		var handles []func()
		var dsq *priorityqueue.PriorityQueue[int, prio]
		var tq timed.PriorityQueue[int]
		desc := flavour == "timed-descending"
		switch flavour {
		case "ds":
			dsq = priorityqueue.New[int, prio]()
		case "timed-ascending":
			tq = timed.NewPriorityQueue[int](true)
		default:
			tq = timed.NewPriorityQueue[int]()
		}
		better := func(a, b int) bool { // a pops before b
			if desc {
				return a > b
			}
			return a < b
		}
		live := func() []*pqItem {
			var l []*pqItem
			for _, it := range items {
				if it.live {
					l = append(l, it)
				}
			}
			return l
		}
		bestPrio := func() (int, bool) {
			l := live()
			if len(l) == 0 {
				return 0, false
			}
			b := l[0].prio
			for _, it := range l {
				if better(it.prio, b) {
					b = it.prio
				}
			}
			return b, true
		}
		checkPopped := func(cls string, id int) string {
			bp, ok := bestPrio()
			if !ok || id < 0 || id >= len(items) || !items[id].live || items[id].prio != bp {
				return fmt.Sprintf("%s|order: popped element %d although the best pending priority is %d (live %v)", cls, id, bp, fmt.Sprint(liveIDs(items)))
			}
			items[id].live = false
			return ""
		}
		return &simple{
			enabled: func(i int) bool {
				o := ops[i]
				if o.kind == "push" {
					return len(items) < 4
				}
				if o.kind == "remove" {
					return o.a < len(items)
				}
				return true
			},
			key: func() string {
				var b strings.Builder
				for _, it := range items {
					fmt.Fprintf(&b, "%d%v,", it.prio, it.live)
				}
				return b.String()
			},
			apply: func(i int, check bool) string {
				o := ops[i]
				cls := "PriorityQueue." + o.kind
				switch o.kind {
				case "push":
					id := len(items)
					items = append(items, &pqItem{id: id, prio: o.a, live: true})
					if dsq != nil {
						handles = append(handles, dsq.Push(id, prio(o.a)))
					} else {
						tq.Push(id, base.Add(time.Duration(o.a)*time.Second))
					}
				case "pop":
					var id int
					var ex bool
					if dsq != nil {
						id, ex = dsq.Pop()
					} else {
						id, ex = tq.Pop()
					}
					_, any := bestPrio()
					if ex != any {
						return fmt.Sprintf("%s|result: Pop exists=%v with %d pending", cls, ex, len(live()))
					}
					if ex {
						if m := checkPopped(cls, id); m != "" {
							return m
						}
					}
				case "popall", "popuntil":
					var got []int
					var want int
					if o.kind == "popall" {
						if dsq != nil {
							got = dsq.PopAll()
						} else {
							got = tq.PopAll()
						}
						want = len(live())
					} else {
						if dsq != nil {
							got = dsq.PopUntil(prio(o.a))
						} else {
							got = tq.PopUntil(base.Add(time.Duration(o.a) * time.Second))
						}
						for _, it := range live() {
							if it.prio == o.a || better(it.prio, o.a) {
								want++
							}
						}
					}
					if len(got) != want {
						return fmt.Sprintf("%s|count: returned %d elements, expected %d", cls, len(got), want)
					}
					for _, id := range got {
						if m := checkPopped(cls, id); m != "" {
							return m
						}
					}
				case "remove":
					handles[o.a]()
					items[o.a].live = false
				}
				if !check {
					return ""
				}
				var size int
				var empty bool
				var pk int
				var pex bool
				if dsq != nil {
					size, empty = dsq.Size(), dsq.IsEmpty()
					pk, pex = dsq.Peek()
				} else {
					size, empty = tq.Size(), tq.IsEmpty()
					pk, pex = tq.Peek()
				}
				if size != len(live()) || empty != (len(live()) == 0) {
					return fmt.Sprintf("%s|size: Size %d, model %d", cls, size, len(live()))
				}
				bp, any := bestPrio()
				if pex != any || (pex && (!items[pk].live || items[pk].prio != bp)) {
					return fmt.Sprintf("%s|peek: Peek gave (%d,%v), best priority %d", cls, pk, pex, bp)
				}
				return ""
			},
		}
	}}
}

func liveIDs(items []*pqItem) []int {
	var l []int
	for _, it := range items {
		if it.live {
			l = append(l, it.id)
		}
	}
	return l
}

// ---------------- Queue / RingBuffer / Stack ----------------

func queueSys(capacity int) sysDef {
	names := []string{"Offer", "ForceOffer", "Poll"}
	// not merged: the ring cursors are not observable through the API, so no model key can stand for the real state
	return sysDef{name: fmt.Sprintf("queue/cap%d", capacity), names: names, depth: 3*capacity + 3, merge: false, mk: func() *simple {
		real := queue.New[int](capacity)
		var model []int
		next := 0
		return &simple{
			key:     func() string { return "" },
			enabled: func(i int) bool { return true },
			apply: func(i int, check bool) string {
				cls := "Queue." + names[i]
				switch i {
				case 0:
					next++
					ok := real.Offer(next)
					if check && ok != (len(model) < capacity) {
						return fmt.Sprintf("%s|result: Offer returned %v with %d/%d elements", cls, ok, len(model), capacity)
					}
					if len(model) < capacity {
						model = append(model, next)
					}
				case 1:
					next++
					rem, was := real.ForceOffer(next)
					full := len(model) == capacity
					if check && (was != full || (full && rem != model[0])) {
						return fmt.Sprintf("%s|result: ForceOffer evicted (%d,%v), model %v", cls, rem, was, model)
					}
					if full {
						model = model[1:]
					}
					model = append(model, next)
				case 2:
					v, ok := real.Poll()
					if check && (ok != (len(model) > 0) || (ok && v != model[0])) {
						return fmt.Sprintf("%s|result: Poll returned (%d,%v), model %v", cls, v, ok, model)
					}
					if len(model) > 0 {
						model = model[1:]
					}
				}
				if check && (real.Size() != len(model) || real.Capacity() != capacity) {
					return fmt.Sprintf("%s|size: Size %d Capacity %d, model %d/%d", cls, real.Size(), real.Capacity(), len(model), capacity)
				}
				return ""
			},
		}
	}}
}

func ringBufferSys(capacity int) sysDef {
	names := []string{"Add"}
	return sysDef{name: fmt.Sprintf("ringbuffer/cap%d", capacity), names: names, depth: 3*capacity + 2, merge: false, mk: func() *simple {
		real := ringbuffer.NewRingBuffer[int](capacity)
		var model []int // newest first
		next := 0
		return &simple{
			key: func() string { return "" },
			apply: func(i int, check bool) string {
				next++
				if !real.Add(next) && check {
					return "RingBuffer.Add|result: Add returned false"
				}
				model = append([]int{next}, model...)
				if len(model) > capacity {
					model = model[:capacity]
				}
				if check && fmt.Sprint(real.ToSlice()) != fmt.Sprint(model) {
					return fmt.Sprintf("RingBuffer.Add|contents: ToSlice %v, expected the last %d elements newest first %v", real.ToSlice(), capacity, model)
				}
				return ""
			},
		}
	}}
}

func stackSys(threadSafe bool) sysDef {
	names := []string{"Push", "Pop", "Clear"}
	return sysDef{name: fmt.Sprintf("stack/threadsafe=%v", threadSafe), names: names, depth: 6, merge: false, mk: func() *simple {
		real := stack.New[int](threadSafe)
		var model []int
		next := 0
		return &simple{
			key: func() string { return "" },
			apply: func(i int, check bool) string {
				cls := "Stack." + names[i]
				switch i {
				case 0:
					next++
					real.Push(next)
					model = append(model, next)
				case 1:
					v, ok := real.Pop()
					if check && (ok != (len(model) > 0) || (ok && v != model[len(model)-1])) {
						return fmt.Sprintf("%s|result: Pop gave (%d,%v), model %v", cls, v, ok, model)
					}
					if len(model) > 0 {
						model = model[:len(model)-1]
					}
				case 2:
					real.Clear()
					model = nil
				}
				if !check {
					return ""
				}
				v, ok := real.Peek()
				if ok != (len(model) > 0) || (ok && v != model[len(model)-1]) || real.Size() != len(model) || real.IsEmpty() != (len(model) == 0) {
					return fmt.Sprintf("%s|probe: Peek (%d,%v) Size %d, model %v", cls, v, ok, real.Size(), model)
				}
				return ""
			},
		}
	}}
}

// ---------------- BytesFilter ----------------

type ident [32]byte

func bytesFilterSys(size int) sysDef {
	var names []string
	for k := 1; k <= 4; k++ {
		names = append(names, fmt.Sprintf("Add(%d)", k), fmt.Sprintf("AddIdentifier(%d)", k))
	}
	return sysDef{name: fmt.Sprintf("bytesfilter/size%d", size), names: names, depth: 30, merge: true, mk: func() *simple {
		real := bytesfilter.New(func(b []byte) ident { return ident{b[0]} }, size)
		var model []int // last N distinct ids, oldest first
		return &simple{
			key: func() string { return fmt.Sprint(model) },
			apply: func(i int, check bool) string {
				k := i/2 + 1
				cls := "BytesFilter.Add"
				known := false
				for _, m := range model {
					if m == k {
						known = true
					}
				}
				var added bool
				if i%2 == 0 {
					var id ident
					id, added = real.Add([]byte{byte(k)})
					if check && id != (ident{byte(k)}) {
						return cls + "|identifier: wrong identifier returned"
					}
				} else {
					added = real.AddIdentifier(ident{byte(k)})
				}
				if check && added == known {
					return fmt.Sprintf("%s|result: added=%v for %d, remembered %v", cls, added, k, model)
				}
				if !known {
					model = append(model, k)
					if len(model) > size {
						model = model[1:]
					}
				}
				if !check {
					return ""
				}
				for q := 1; q <= 4; q++ {
					want := false
					for _, m := range model {
						if m == q {
							want = true
						}
					}
					if real.Contains([]byte{byte(q)}) != want || real.ContainsIdentifier(ident{byte(q)}) != want {
						return fmt.Sprintf("%s|contains: Contains(%d)=%v, the last %d distinct identifiers are %v", cls, q, real.Contains([]byte{byte(q)}), size, model)
					}
				}
				return ""
			},
		}
	}}
}

// ---------------- Walker ----------------

func walkerSys(revisit bool) sysDef {
	type op struct {
		kind string
		args []int
	}
	var ops []op
	var names []string
	for e := 1; e <= 3; e++ {
		ops = append(ops, op{"push", []int{e}})
		names = append(names, fmt.Sprintf("Push(%d)", e))
	}
	for _, a := range [][]int{{1, 2}, {2, 3}, {3, 1, 2}, {1, 1}} {
		ops = append(ops, op{"pushall", a}, op{"pushfront", a})
		names = append(names, fmt.Sprintf("PushAll%v", a), fmt.Sprintf("PushFront%v", a))
	}
	ops = append(ops, op{"next", nil}, op{"stop", nil}, op{"reset", nil})
	names = append(names, "Next", "StopWalk", "Reset")
	return sysDef{name: fmt.Sprintf("walker/revisit=%v", revisit), names: names, depth: 4, merge: false, mk: func() *simple {
		real := walker.New[int](revisit)
		var q []int
		pushed := map[int]bool{}
		stopped := false
		admit := func(e int) bool {
			was := pushed[e]
			pushed[e] = true
			return !was || revisit
		}
		return &simple{
			key:     func() string { return "" },
			enabled: func(i int) bool { return ops[i].kind != "next" || (len(q) > 0) },
			apply: func(i int, check bool) string {
				o := ops[i]
				cls := "Walker." + o.kind
				switch o.kind {
				case "push":
					real.Push(o.args[0])
					if admit(o.args[0]) {
						q = append(q, o.args[0])
					}
				case "pushall":
					real.PushAll(o.args...)
					for _, e := range o.args {
						if admit(e) {
							q = append(q, e)
						}
					}
				case "pushfront":
					real.PushFront(o.args...)
					for _, e := range o.args {
						if admit(e) {
							q = append([]int{e}, q...)
						}
					}
				case "next":
					v := real.Next()
					if check && v != q[0] {
						return fmt.Sprintf("%s|order: Next returned %d, queue order is %v", cls, v, q)
					}
					q = q[1:]
				case "stop":
					real.StopWalk()
					stopped = true
				case "reset":
					real.Reset()
					q, pushed, stopped = nil, map[int]bool{}, false
				}
				if !check {
					return ""
				}
				if real.HasNext() != (len(q) > 0 && !stopped) || real.WalkStopped() != stopped {
					return fmt.Sprintf("%s|hasnext: HasNext=%v WalkStopped=%v, model queue %v stopped=%v", cls, real.HasNext(), real.WalkStopped(), q, stopped)
				}
				for e := 1; e <= 3; e++ {
					if real.Pushed(e) != pushed[e] {
						return fmt.Sprintf("%s|pushed: Pushed(%d)=%v, model %v", cls, e, real.Pushed(e), pushed[e])
					}
				}
				return ""
			},
		}
	}}
}

// ---------------- TimeHeap ----------------

func timeHeapSys() sysDef {
	names := []string{"Add(1)", "Add(5)", "Clear", "advance 1s", "advance 3s", "AveragePerSecond(2s)", "AveragePerSecond(4s)"}
	return sysDef{name: "timeheap", names: names, depth: 5, merge: false, mk: func() *simple {
		vrt.SetOfflineNow(0)
		real := timeheap.NewTimeHeap()
		type ent struct {
			at    int64
			count uint64
		}
		var model []ent
		var now int64
		return &simple{
			key: func() string { return "" },
			apply: func(i int, check bool) string {
				vrt.SetOfflineNow(now)
				cls := "TimeHeap." + strings.SplitN(names[i], "(", 2)[0]
				switch i {
				case 0, 1:
					c := uint64(1)
					if i == 1 {
						c = 5
					}
					real.Add(c)
					model = append(model, ent{now, c})
				case 2:
					real.Clear()
					model = nil
				case 3, 4:
					now += int64(time.Second) * int64(1+2*(i-3))
					vrt.SetOfflineNow(now)
				case 5, 6:
					w := time.Duration(2+2*(i-5)) * time.Second
					got := real.AveragePerSecond(w)
					var keep []ent
					var total uint64
					for _, e := range model {
						if time.Duration(now-e.at) < w {
							keep = append(keep, e)
							total += e.count
						}
					}
					model = keep // entries older than a queried window are forgotten
					want := float32(total) / float32(w.Seconds())
					if check && got != want {
						return fmt.Sprintf("%s|windowed-sum: AveragePerSecond(%v) = %v, the entries added within the window and not cleared sum to %d (expected %v)", cls, w, got, total, want)
					}
				}
				return ""
			},
		}
	}}
}

// ---------------- IndexedStorage ----------------

type idx uint32

func indexedStorageSys() sysDef {
	type op struct {
		kind string
		i, k int
	}
	var ops []op
	var names []string
	for i := 1; i <= 2; i++ {
		ops = append(ops, op{"get", i, 0}, op{"getcreate", i, 0}, op{"evict", i, 0})
		names = append(names, fmt.Sprintf("Get(%d)", i), fmt.Sprintf("Get(%d,create)", i), fmt.Sprintf("Evict(%d)", i))
		for k := 1; k <= 2; k++ {
			ops = append(ops, op{"put", i, k})
			names = append(names, fmt.Sprintf("Get(%d,create).Set(%d)", i, k))
		}
	}
	ops = append(ops, op{"clear", 0, 0})
	names = append(names, "Clear")
	return sysDef{name: "indexedstorage", names: names, depth: 30, merge: true, mk: func() *simple {
		real := memstorage.NewIndexedStorage[idx, int, int]()
		model := map[int]map[int]int{}
		dump := func(m map[int]map[int]int) string {
			var is []int
			for i := range m {
				is = append(is, i)
			}
			sort.Ints(is)
			var b strings.Builder
			for _, i := range is {
				fmt.Fprintf(&b, "%d:{%s}", i, sortedInts(m[i]))
			}
			return b.String()
		}
		return &simple{
			key: func() string { return dump(model) },
			apply: func(n int, check bool) string {
				o := ops[n]
				cls := "IndexedStorage." + o.kind
				switch o.kind {
				case "get":
					s := real.Get(idx(o.i))
					if check && (s != nil) != (model[o.i] != nil) {
						return fmt.Sprintf("%s|result: Get(%d) nil=%v, model present=%v", cls, o.i, s == nil, model[o.i] != nil)
					}
				case "getcreate":
					s := real.Get(idx(o.i), true)
					if check && s == nil {
						return cls + "|result: Get(create) returned nil"
					}
					if model[o.i] == nil {
						model[o.i] = map[int]int{}
					}
				case "put":
					real.Get(idx(o.i), true).Set(o.k, o.k*10)
					if model[o.i] == nil {
						model[o.i] = map[int]int{}
					}
					model[o.i][o.k] = o.k * 10
				case "evict":
					s := real.Evict(idx(o.i))
					if check {
						if (s != nil) != (model[o.i] != nil) {
							return fmt.Sprintf("%s|result: Evict(%d) nil=%v, model present=%v", cls, o.i, s == nil, model[o.i] != nil)
						}
						if s != nil && sortedInts(s.AsMap()) != sortedInts(model[o.i]) {
							return fmt.Sprintf("%s|result: evicted storage holds %v, model %v", cls, s.AsMap(), model[o.i])
						}
					}
					delete(model, o.i)
				case "clear":
					ks, ss := real.Clear()
					if check {
						got := map[int]map[int]int{}
						for j, k := range ks {
							got[int(k)] = ss[j].AsMap()
						}
						if dump(got) != dump(model) {
							return fmt.Sprintf("%s|result: Clear returned %s, model %s", cls, dump(got), dump(model))
						}
					}
					model = map[int]map[int]int{}
				}
				if !check {
					return ""
				}
				got := map[int]map[int]int{}
				real.ForEach(func(i idx, s *shrinkingmap.ShrinkingMap[int, int]) { got[int(i)] = s.AsMap() })
				if dump(got) != dump(model) {
					return fmt.Sprintf("%s|contents: storage holds %s, model %s", cls, dump(got), dump(model))
				}
				return ""
			},
		}
	}}
}

// ---------------- OnChangeMap ----------------

type itemID int

func (i itemID) Key() int       { return int(i) }
func (i itemID) String() string { return fmt.Sprint(int(i)) }

type item struct {
	id  itemID
	val int
}

func (i *item) ID() itemID                           { return i.id }
func (i *item) Clone() onchangemap.Item[int, itemID] { c := *i; return &c }

func onChangeMapSys(failing bool) sysDef {
	type op struct {
		kind string
		k    int
	}
	var ops []op
	var names []string
	for k := 1; k <= 2; k++ {
		for _, kind := range []string{"add", "modify", "modify-nochange", "delete"} {
			ops = append(ops, op{kind, k})
			names = append(names, fmt.Sprintf("%s(%d)", kind, k))
		}
	}
	ops = append(ops, op{"enable", 0}, op{"disable", 0}, op{"execute", 0})
	names = append(names, "CallbacksEnabled(true)", "CallbacksEnabled(false)", "ExecuteChangedCallback")
	errCB := errors.New("callback failed")
	return sysDef{name: fmt.Sprintf("onchangemap/failing-callbacks=%v", failing), names: names, depth: 5, merge: false, mk: func() *simple {
		var log []string
		cb := func(kind string) func(*item) error {
			return func(it *item) error {
				log = append(log, fmt.Sprintf("%s(%d=%d)", kind, it.id, it.val))
				if failing {
					return errCB
				}
				return nil
			}
		}
		changedFails := false
		real := onchangemap.NewOnChangeMap(
			onchangemap.WithChangedCallback[int, itemID](func(items []*item) error {
				vals := map[int]int{}
				for _, it := range items {
					vals[int(it.id)] = it.val
				}
				log = append(log, "changed{"+sortedInts(vals)+"}")
				if changedFails {
					return errCB
				}
				return nil
			}),
			onchangemap.WithItemAddedCallback[int, itemID](cb("added")),
			onchangemap.WithItemModifiedCallback[int, itemID](cb("modified")),
			onchangemap.WithItemDeletedCallback[int, itemID](cb("deleted")),
		)
		model := map[int]int{}
		enabled := false
		return &simple{
			key: func() string { return "" },
			apply: func(n int, check bool) string {
				o := ops[n]
				cls := "OnChangeMap." + o.kind
				log = nil
				var want []string
				_, present := model[o.k]
				var err error
				expectErr := false
				itemCB := func(kind string, val int) {
					if enabled {
						want = append(want, "changed{"+sortedInts(model)+"}", fmt.Sprintf("%s(%d=%d)", kind, o.k, val))
						if failing {
							expectErr = true
						}
					}
				}
				switch o.kind {
				case "add":
					err = real.Add(&item{id: itemID(o.k), val: 1})
					if present {
						expectErr = true
					} else {
						model[o.k] = 1
						itemCB("added", 1)
					}
				case "modify", "modify-nochange":
					change := o.kind == "modify"
					var got *item
					got, err = real.Modify(itemID(o.k), func(it *item) bool {
						if change {
							it.val++
						}
						return change
					})
					if !present {
						expectErr = true
					} else {
						if change {
							model[o.k]++
							itemCB("modified", model[o.k])
						}
						if check && (got == nil || got.val != model[o.k]) {
							return fmt.Sprintf("%s|result: Modify returned %+v, model value %d", cls, got, model[o.k])
						}
					}
				case "delete":
					err = real.Delete(itemID(o.k))
					if !present {
						expectErr = true
					} else {
						v := model[o.k]
						delete(model, o.k)
						itemCB("deleted", v)
					}
				case "enable":
					real.CallbacksEnabled(true)
					enabled = true
				case "disable":
					real.CallbacksEnabled(false)
					enabled = false
				case "execute":
					err = real.ExecuteChangedCallback()
					if enabled {
						want = append(want, "changed{"+sortedInts(model)+"}")
					}
				}
				if !check {
					return ""
				}
				if (err != nil) != expectErr {
					return fmt.Sprintf("%s|error: returned %v, expected error=%v", cls, err, expectErr)
				}
				if fmt.Sprint(log) != fmt.Sprint(want) {
					return fmt.Sprintf("%s|callbacks: callbacks %v, expected %v", cls, log, want)
				}
				all := map[int]int{}
				for k, it := range real.All() {
					all[k] = it.val
				}
				if sortedInts(all) != sortedInts(model) {
					return fmt.Sprintf("%s|contents: All() = %v, model %v", cls, all, model)
				}
				for k := 1; k <= 2; k++ {
					it, gerr := real.Get(itemID(k))
					mv, ok := model[k]
					if (gerr == nil) != ok || (ok && it.val != mv) {
						return fmt.Sprintf("%s|get: Get(%d) = %+v,%v, model (%d,%v)", cls, k, it, gerr, mv, ok)
					}
					if ok {
						it.val = 99 // returned items are clones
						if it2, _ := real.Get(itemID(k)); it2.val != mv {
							return fmt.Sprintf("%s|aliasing: mutating the item returned by Get changed the stored item", cls)
						}
					}
				}
				return ""
			},
		}
	}}
}

// ---------------- SubscriptionManager ----------------

func subscriptionManagerSys(limit int) sysDef {
	type op struct {
		kind string
		c, t int
	}
	var ops []op
	var names []string
	for c := 1; c <= 2; c++ {
		ops = append(ops, op{"connect", c, 0}, op{"disconnect", c, 0})
		names = append(names, fmt.Sprintf("Connect(c%d)", c), fmt.Sprintf("Disconnect(c%d)", c))
		for t := 1; t <= 3; t++ {
			ops = append(ops, op{"subscribe", c, t}, op{"unsubscribe", c, t})
			names = append(names, fmt.Sprintf("Subscribe(c%d,t%d)", c, t), fmt.Sprintf("Unsubscribe(c%d,t%d)", c, t))
		}
	}
	return sysDef{name: fmt.Sprintf("subscriptionmanager/limit%d", limit), names: names, depth: 5, merge: true, mk: func() *simple {
		var opts []func(*subscriptionmanager.SubscriptionManager[int, int])
		_ = opts
		var real *subscriptionmanager.SubscriptionManager[int, int]
		if limit > 0 {
			real = subscriptionmanager.New(subscriptionmanager.WithMaxTopicSubscriptionsPerClient[int, int](limit))
		} else {
			real = subscriptionmanager.New[int, int]()
		}
		var log []string
		ev := real.Events()
		ev.ClientConnected.Hook(func(e *subscriptionmanager.ClientEvent[int]) {
			log = append(log, fmt.Sprintf("connected(c%d)", e.ClientID))
		})
		ev.ClientDisconnected.Hook(func(e *subscriptionmanager.ClientEvent[int]) {
			log = append(log, fmt.Sprintf("disconnected(c%d)", e.ClientID))
		})
		ev.TopicSubscribed.Hook(func(e *subscriptionmanager.ClientTopicEvent[int, int]) {
			log = append(log, fmt.Sprintf("subscribed(c%d,t%d)", e.ClientID, e.Topic))
		})
		ev.TopicUnsubscribed.Hook(func(e *subscriptionmanager.ClientTopicEvent[int, int]) {
			log = append(log, fmt.Sprintf("unsubscribed(c%d,t%d)", e.ClientID, e.Topic))
		})
		ev.TopicAdded.Hook(func(e *subscriptionmanager.TopicEvent[int]) {
			log = append(log, fmt.Sprintf("topicadded(t%d)", e.Topic))
		})
		ev.TopicRemoved.Hook(func(e *subscriptionmanager.TopicEvent[int]) {
			log = append(log, fmt.Sprintf("topicremoved(t%d)", e.Topic))
		})
		ev.DropClient.Hook(func(e *subscriptionmanager.DropClientEvent[int]) {
			log = append(log, fmt.Sprintf("drop(c%d)", e.ClientID))
		})
		clients := map[int]map[int]int{} // connected clients -> topic -> count
		global := func() map[int]int {
			g := map[int]int{}
			for _, ts := range clients {
				for t, n := range ts {
					g[t] += n
				}
			}
			return g
		}
		// cleanup returns the expected events of dropping/disconnecting client c
		cleanup := func(c int, want *[]string) {
			before := global()
			ts := clients[c]
			delete(clients, c)
			after := global()
			for t := range before {
				if after[t] == 0 {
					*want = append(*want, fmt.Sprintf("topicremoved(t%d)", t))
				}
			}
			for t, n := range ts {
				for j := 0; j < n; j++ {
					*want = append(*want, fmt.Sprintf("unsubscribed(c%d,t%d)", c, t))
				}
			}
		}
		return &simple{
			key: func() string {
				var cs []int
				for c := range clients {
					cs = append(cs, c)
				}
				sort.Ints(cs)
				var b strings.Builder
				for _, c := range cs {
					fmt.Fprintf(&b, "c%d{%s}", c, sortedInts(clients[c]))
				}
				return b.String()
			},
			enabled: func(n int) bool {
				o := ops[n]
				// keep per-topic counts small
				return o.kind != "subscribe" || clients[o.c] == nil || clients[o.c][o.t] < 2
			},
			apply: func(n int, check bool) string {
				o := ops[n]
				cls := "SubscriptionManager." + o.kind
				log = nil
				var want []string
				ts, connected := clients[o.c]
				switch o.kind {
				case "connect":
					real.Connect(o.c)
					if connected {
						cleanup(o.c, &want)
						want = append(want, fmt.Sprintf("disconnected(c%d)", o.c))
					}
					clients[o.c] = map[int]int{}
					want = append(want, fmt.Sprintf("connected(c%d)", o.c))
				case "disconnect":
					got := real.Disconnect(o.c)
					if check && got != connected {
						return fmt.Sprintf("%s|result: Disconnect returned %v, connected=%v", cls, got, connected)
					}
					if connected {
						cleanup(o.c, &want)
						want = append(want, fmt.Sprintf("disconnected(c%d)", o.c))
					}
				case "subscribe":
					got := real.Subscribe(o.c, o.t)
					switch {
					case !connected:
						if check && got {
							return cls + "|result: Subscribe of an unknown client succeeded"
						}
					case ts[o.t] == 0 && limit != 0 && len(ts)+1 >= limit:
						// forced drop at the limit: the new subscription never happened
						if check && got {
							return cls + "|result: Subscribe beyond the limit succeeded"
						}
						cleanup(o.c, &want)
						want = append(want, fmt.Sprintf("drop(c%d)", o.c), fmt.Sprintf("disconnected(c%d)", o.c))
					default:
						if check && !got {
							return cls + "|result: Subscribe failed"
						}
						if global()[o.t] == 0 {
							want = append(want, fmt.Sprintf("topicadded(t%d)", o.t))
						}
						ts[o.t]++
						want = append(want, fmt.Sprintf("subscribed(c%d,t%d)", o.c, o.t))
					}
				case "unsubscribe":
					got := real.Unsubscribe(o.c, o.t)
					has := connected && ts[o.t] > 0
					if check && got != has {
						return fmt.Sprintf("%s|result: Unsubscribe returned %v, subscribed=%v", cls, got, has)
					}
					if has {
						ts[o.t]--
						if ts[o.t] == 0 {
							delete(ts, o.t)
						}
						if global()[o.t] == 0 {
							want = append(want, fmt.Sprintf("topicremoved(t%d)", o.t))
						}
						want = append(want, fmt.Sprintf("unsubscribed(c%d,t%d)", o.c, o.t))
					}
				}
				if !check {
					return ""
				}
				// events mirror every state change (order between independent topics is unspecified: compare as multisets)
				a, b := append([]string{}, log...), append([]string{}, want...)
				sort.Strings(a)
				sort.Strings(b)
				if fmt.Sprint(a) != fmt.Sprint(b) {
					return fmt.Sprintf("%s|events: emitted %v, the state change implies %v", cls, log, want)
				}
				g := global()
				distinctAll := 0
				for _, ts := range clients {
					distinctAll += len(ts)
				}
				if real.SubscribersSize() != len(clients) || real.TopicsSize() != len(g) || real.TopicsSizeAll() != distinctAll {
					return fmt.Sprintf("%s|counts: SubscribersSize %d TopicsSize %d TopicsSizeAll %d, model %d/%d/%d", cls, real.SubscribersSize(), real.TopicsSize(), real.TopicsSizeAll(), len(clients), len(g), distinctAll)
				}
				for t := 1; t <= 3; t++ {
					if real.TopicHasSubscribers(t) != (g[t] > 0) {
						return fmt.Sprintf("%s|topic-count: TopicHasSubscribers(t%d)=%v but the clients hold %d subscriptions of it", cls, t, real.TopicHasSubscribers(t), g[t])
					}
					for c := 1; c <= 2; c++ {
						if real.ClientSubscribedToTopic(c, t) != (clients[c] != nil && clients[c][t] > 0) {
							return fmt.Sprintf("%s|client-topic: ClientSubscribedToTopic(c%d,t%d)=%v, model %v", cls, c, t, real.ClientSubscribedToTopic(c, t), clients[c])
						}
					}
				}
				return ""
			},
		}
	}}
}

func allSystems(c *cli.Ctx) []sysDef {
	var out []sysDef
	for _, cfg := range []struct {
		r float32
		n int
	}{{0, 0}, {1, 0}, {0, 1}, {2, 2}, {0.5, 1}} {
		out = append(out, shrinkingMapSys(cfg.r, cfg.n))
	}
	out = append(out, randomMapSys(), priorityQueueSys("ds"), priorityQueueSys("timed-ascending"), priorityQueueSys("timed-descending"))
	for capacity := 1; capacity <= 3; capacity++ {
		out = append(out, queueSys(capacity), ringBufferSys(capacity), bytesFilterSys(capacity))
	}
	out = append(out, stackSys(false), stackSys(true), walkerSys(false), walkerSys(true), timeHeapSys(), indexedStorageSys(),
		onChangeMapSys(false), onChangeMapSys(true), subscriptionManagerSys(0), subscriptionManagerSys(2), subscriptionManagerSys(3))
	if c.Thorough() {
		for i := range out {
			if !out[i].merge {
				out[i].depth += 2
			} else if strings.HasPrefix(out[i].name, "subscriptionmanager") {
				out[i].depth = 8
			}
		}
	}
	return out
}

// concurrent use of the PriorityQueue removal handles (the containers are documented as thread-safe): every element
// leaves the queue exactly once, whichever of Pop and its handle gets there first.
func pqScenarios() []*sched.Scenario {
	type world struct {
		q       *priorityqueue.PriorityQueue[int, prio]
		handles []func()
		popped  []int
	}
	mk := func(n int) *world {
		w := &world{q: priorityqueue.New[int, prio]()}
		for i := 1; i <= n; i++ {
			w.handles = append(w.handles, w.q.Push(i, prio(i)))
		}
		return w
	}
	pop := func(w *world) {
		if e, ok := w.q.Pop(); ok {
			w.popped = append(w.popped, e)
		}
	}
	finish := func(w *world, n int, removed map[int]bool) {
		for {
			e, ok := w.q.Pop()
			if !ok {
				break
			}
			w.popped = append(w.popped, e)
		}
		seen := map[int]int{}
		for _, e := range w.popped {
			seen[e]++
		}
		for i := 1; i <= n; i++ {
			switch {
			case seen[i] > 1:
				vrt.Fail("element-popped-twice", "element %d was popped %d times (popped %v)", i, seen[i], w.popped)
			case seen[i] == 0 && !removed[i]:
				vrt.Fail("element-lost", "element %d was neither popped nor removed through its own handle (popped %v, handles called for %v)", i, w.popped, removed)
			}
		}
	}
	storageScenario := &sched.Scenario{Name: "indexedstorage/concurrent-get-create", Run: func() {
		st := memstorage.NewIndexedStorage[idx, int, int]()
		vrt.Par(
			func() { st.Get(7, true).Set(1, 10) },
			func() { st.Get(7, true).Set(2, 20) },
			func() {
				if s := st.Get(7); s != nil {
					s.Set(3, 30)
				}
			},
		)
		final := st.Get(7)
		if final == nil {
			vrt.Fail("storage-lost", "Get(7, true) was called twice but Get(7) returns nil afterwards")
			return
		}
		for k, v := range map[int]int{1: 10, 2: 20} {
			if got, ok := final.Get(k); !ok || got != v {
				vrt.Fail("write-lost", "a value written through the storage handed out by Get(7, true) is not in the storage Get(7) returns now (key %d: %v, %v)", k, got, ok)
			}
		}
	}}
	shrinkScenario := &sched.Scenario{Name: "shrinkingmap/shrink-vs-set-delete", Run: func() {
		m := shrinkingmap.New[int, int]()
		m.Set(1, 1)
		m.Set(2, 2)
		m.Delete(2)
		m.Set(2, 2)
		vrt.Par(
			func() { m.Shrink() },
			func() { m.Set(3, 3); m.Delete(1) },
			func() { m.Set(4, 4) },
		)
		for k, want := range map[int]bool{1: false, 2: true, 3: true, 4: true} {
			if _, ok := m.Get(k); ok != want {
				vrt.Fail("shrink-observable", "after Shrink() ran concurrently with Set(3), Delete(1), Set(4): key %d present=%v, expected %v (size %d)", k, ok, want, m.Size())
			}
		}
	}}
	stackScenario := &sched.Scenario{Name: "threadsafe-stack/2xpop-vs-push", Run: func() {
		st := stack.New[int](true)
		st.Push(1)
		st.Push(2)
		st.Push(3)
		var got [2][]int
		vrt.Par(
			func() {
				for i := 0; i < 2; i++ {
					if v, ok := st.Pop(); ok {
						got[0] = append(got[0], v)
					}
				}
			},
			func() {
				if v, ok := st.Pop(); ok {
					got[1] = append(got[1], v)
				}
			},
			func() { st.Push(4) },
		)
		seen := map[int]int{}
		for _, g := range got {
			for _, v := range g {
				seen[v]++
			}
		}
		for st.Size() > 0 {
			v, _ := st.Pop()
			seen[v]++
		}
		for v := 1; v <= 4; v++ {
			if seen[v] != 1 {
				vrt.Fail("stack-element-count", "element %d was popped %d times in total (popped concurrently: %v)", v, seen[v], got)
			}
		}
	}}
	return []*sched.Scenario{
		stackScenario,
		storageScenario,
		shrinkScenario,
		{Name: "priorityqueue/handle-vs-2pops", Run: func() {
			w := mk(3)
			vrt.Par(func() { w.handles[1]() }, func() { pop(w); pop(w) })
			finish(w, 3, map[int]bool{2: true})
		}},
		{Name: "priorityqueue/same-handle-twice-vs-pop", Run: func() {
			w := mk(3)
			vrt.Par(func() { w.handles[0]() }, func() { w.handles[0]() }, func() { pop(w) })
			finish(w, 3, map[int]bool{1: true})
		}},
		{Name: "priorityqueue/handle-vs-push-vs-pop", Run: func() {
			w := mk(2)
			vrt.Par(func() { w.handles[1]() }, func() { w.handles = append(w.handles, w.q.Push(0, prio(0))) }, func() { pop(w) })
			seenZero := false
			for {
				e, ok := w.q.Pop()
				if !ok {
					break
				}
				w.popped = append(w.popped, e)
			}
			cnt := map[int]int{}
			for _, e := range w.popped {
				cnt[e]++
				if e == 0 {
					seenZero = true
				}
			}
			if !seenZero || cnt[1] != 1 || cnt[0] != 1 || cnt[2] > 1 {
				vrt.Fail("element-lost", "pushed 1,2 then concurrently removed 2 / pushed 0 / popped once; popped in total %v", w.popped)
			}
		}},
	}
}

func main() {
	var parts []*cli.Part
	for i, d := range allSystems(&cli.Ctx{}) {
		i := i
		parts = append(parts, hist.Part(d.name, func(c *cli.Ctx) []*hist.System { return []*hist.System{allSystems(c)[i].system()} }))
	}
	cli.Main(&cli.Property{
		ID: "C12", Level: "model_checking", Parts: parts, Scenarios: pqScenarios(), RaceHB: &cli.RaceHB{QuickBound: 1, ThoroughBound: 2}, QuickBound: 2, ThoroughBound: 3, QuickUnbounded: true, ThoroughUnbounded: true, Cache: true, QuickSecs: 50, ThoroughSecs: 600,
		Rule:        "one explicit-state search per container and option setting over all operation histories on a small universe against its abstract model (Go map, sorted multiset, bounded FIFO, last-N list, LIFO, queue of first-time pushes, windowed sum on a virtual clock, map of maps, map + expected callback log, per-client multisets); merged systems run to the fixpoint of the reachable model state space, unmerged ones to a depth bound; every return value, every read-only probe and every emitted callback/event is compared after every step; distinct = distinct states",
		Assumptions: []string{"random picks are checked for membership/distinctness only (8 repetitions per state)", "TimeHeap: entries older than a previously queried window are forgotten (AveragePerSecond prunes them)", "event order between independent topics of one clean-up is unspecified (compared as multisets)"},
		NotReached:  []string{"universes larger than 3-4 keys", "concurrent use of these containers other than the PriorityQueue removal handles (3 scenarios, all interleavings)"},
	})
}
