package main

import "verif/engine/hist"

// simple adapts closures to hist.Instance (+Replayer).
type simple struct {
	enabled func(i int) bool
	apply   func(i int, check bool) string
	key     func() string
}

func (s *simple) Enabled(i int) bool {
	if s.enabled == nil {
		return true
	}
	return s.enabled(i)
}
func (s *simple) Apply(i int) string { return s.apply(i, true) }
func (s *simple) Replay(i int)       { _ = s.apply(i, false) }
func (s *simple) Key() string        { return s.key() }

type sysDef struct {
	name  string
	names []string
	depth int
	merge bool
	mk    func() *simple
}

func (d sysDef) system() *hist.System {
	return &hist.System{Name: d.name, Alphabet: d.names, Merge: d.merge, MaxDepth: d.depth, New: func() hist.Instance { return d.mk() }}
}
