// C17 — StarvingMutex / DAGMutex exclusion and wake-ups, Counter and Stack waits.
package main

import (
	"fmt"
	"strings"

	"github.com/iotaledger/hive.go/runtime/syncutils"

	"verif/engine/cli"
	"verif/engine/sched"
	"verif/vatomic"
	"verif/vrt"
)

// monitor of lock holders per entity
type monitor struct {
	w map[string]int
	r map[string]int
}

func newMonitor() *monitor { return &monitor{w: map[string]int{}, r: map[string]int{}} }

func (m *monitor) enterW(id string) {
	if m.w[id] != 0 || m.r[id] != 0 {
		vrt.Fail("exclusion|write-granted-while-held", "write lock on %s granted while held (writers=%d readers=%d)", id, m.w[id], m.r[id])
	}
	m.w[id]++
}
func (m *monitor) exitW(id string) { m.w[id]-- }
func (m *monitor) enterR(id string) {
	if m.w[id] != 0 {
		vrt.Fail("exclusion|read-granted-while-writer", "read lock on %s granted while a writer holds it", id)
	}
	m.r[id]++
}
func (m *monitor) exitR(id string) { m.r[id]-- }

// ---- StarvingMutex scripts ----

func smThread(kind byte, m *syncutils.StarvingMutex, mon *monitor) func() {
	switch kind {
	case 'W':
		return func() {
			m.Lock()
			mon.enterW("m")
			vrt.Yield()
			mon.exitW("m")
			m.Unlock()
		}
	case 'R':
		return func() {
			m.RLock()
			mon.enterR("m")
			vrt.Yield()
			mon.exitR("m")
			m.RUnlock()
		}
	default: // 'D' double (recursive) reader
		return func() {
			m.RLock()
			mon.enterR("m")
			m.RLock()
			mon.enterR("m")
			vrt.Yield()
			mon.exitR("m")
			m.RUnlock()
			mon.exitR("m")
			m.RUnlock()
		}
	}
}

func smScenario(script string) *sched.Scenario {
	return &sched.Scenario{
		Name: "starving/" + script,
		Run: func() {
			m := syncutils.NewStarvingMutex()
			mon := newMonitor()
			var fs []func()
			for i := 0; i < len(script); i++ {
				fs = append(fs, smThread(script[i], m, mon))
			}
			vrt.Par(fs...)
			if s := m.String(); !strings.Contains(s, "WriterActive: false") || !strings.Contains(s, "ReadersActive: 0") || !strings.Contains(s, "PendingWriters: 0") {
				vrt.Fail("state|not-released", "mutex not back to idle: %s", s)
			}
			vrt.Observe("done")
		},
		ThoroughOnly:          len(script) > 3,
		UnboundedThoroughOnly: script == "DDD" || script == "RDD",
	}
}

func multisets(alpha string, n int) []string {
	var out []string
	var rec func(start int, cur string)
	rec = func(start int, cur string) {
		if len(cur) == n {
			out = append(out, cur)
			return
		}
		for i := start; i < len(alpha); i++ {
			rec(i, cur+string(alpha[i]))
		}
	}
	rec(0, "")
	return out
}

// ---- DAGMutex ----

type dagOp struct {
	write bool
	ids   []string
}

func dagThread(op dagOp, d *syncutils.DAGMutex[string], mon *monitor) func() {
	if op.write {
		// several ids: nested write locks taken one after the other in the given (acyclic) order
		return func() {
			for _, id := range op.ids {
				d.Lock(id)
				mon.enterW(id)
			}
			vrt.Yield()
			for i := len(op.ids) - 1; i >= 0; i-- {
				mon.exitW(op.ids[i])
				d.Unlock(op.ids[i])
			}
		}
	}
	return func() {
		d.RLock(op.ids...)
		for _, id := range op.ids {
			mon.enterR(id)
		}
		vrt.Yield()
		for _, id := range op.ids {
			mon.exitR(id)
		}
		d.RUnlock(op.ids...)
	}
}

func dagScenario(name string, thorough bool, ops ...dagOp) *sched.Scenario {
	return &sched.Scenario{
		Name: "dag/" + name,
		Run: func() {
			d := syncutils.NewDAGMutex[string]()
			mon := newMonitor()
			var fs []func()
			for _, op := range ops {
				fs = append(fs, dagThread(op, d, mon))
			}
			vrt.Par(fs...)
			// all entities must be unregistered again: a fresh Lock/Unlock must work and a further Unlock must panic
			d.Lock("A")
			d.Unlock("A")
			vrt.Observe("done")
		},
		ThoroughOnly:          thorough,
		UnboundedThoroughOnly: len(ops) > 2,
	}
}

// ---- misuse (sequential) ----

func expectPanic(f func()) (panicked bool, msg string) {
	defer func() {
		if r := recover(); r != nil {
			if _, ok := r.(vrt.ErrWouldBlock); ok {
				panic(r)
			}
			panicked, msg = true, fmt.Sprint(r)
		}
	}()
	f()
	return false, ""
}

// legalScript must run to completion on an uncorrupted mutex.
func legalSM(m *syncutils.StarvingMutex) {
	m.Lock()
	m.Unlock()
	m.RLock()
	m.RLock()
	m.RUnlock()
	m.RUnlock()
	m.Lock()
	m.Unlock()
}

func misuseScenarios() []*sched.Scenario {
	mk := func(name string, prep func(m *syncutils.StarvingMutex) (undo func()), bad func(m *syncutils.StarvingMutex)) *sched.Scenario {
		return &sched.Scenario{Name: "misuse/" + name, Run: func() {
			m := syncutils.NewStarvingMutex()
			undo := prep(m)
			before := m.String()
			p, msg := expectPanic(func() { bad(m) })
			vrt.Observe("misuse", name, p, msg)
			if !p {
				if after := m.String(); after != before {
					vrt.Fail("misuse|"+name+"|state-corrupted", "%s did not panic and changed the state from %s to %s", name, before, after)
				}
				if undo != nil {
					undo()
				}
				legalSM(m)
			}
		}}
	}
	out := []*sched.Scenario{
		mk("RUnlock-without-RLock", func(m *syncutils.StarvingMutex) func() { return nil }, func(m *syncutils.StarvingMutex) { m.RUnlock() }),
		mk("Unlock-while-readers-hold", func(m *syncutils.StarvingMutex) func() { m.RLock(); return func() { m.RUnlock() } }, func(m *syncutils.StarvingMutex) { m.Unlock() }),
		mk("Unlock-of-free-mutex", func(m *syncutils.StarvingMutex) func() { return nil }, func(m *syncutils.StarvingMutex) { m.Unlock() }),
		mk("RUnlock-while-writer-holds", func(m *syncutils.StarvingMutex) func() { m.Lock(); return func() { m.Unlock() } }, func(m *syncutils.StarvingMutex) { m.RUnlock() }),
	}
	dag := func(name string, body func(d *syncutils.DAGMutex[string]) (held func() bool)) *sched.Scenario {
		return &sched.Scenario{Name: "misuse/dag-" + name, Run: func() {
			d := syncutils.NewDAGMutex[string]()
			body(d)
		}}
	}
	// after a refused (panicking) misuse the mutex must be exactly as before: ordinary contention on the same entity
	// still works (a corrupted consumer count would drop a held lock or lose a wake-up)
	contend := func(d *syncutils.DAGMutex[string], id string) {
		vrt.Par(
			func() { d.Lock(id); vrt.Yield(); d.Unlock(id) },
			func() { d.Lock(id); d.Unlock(id) },
			func() { d.RLock(id); vrt.Yield(); d.RUnlock(id) },
		)
		d.Lock(id)
		d.Unlock(id)
	}
	out = append(out,
		dag("Unlock-unknown-id", func(d *syncutils.DAGMutex[string]) func() bool {
			p, msg := expectPanic(func() { d.Unlock("X") })
			vrt.Observe("misuse", p, msg)
			contend(d, "X")
			return nil
		}),
		dag("RUnlock-unknown-id", func(d *syncutils.DAGMutex[string]) func() bool {
			p, msg := expectPanic(func() { d.RUnlock("X") })
			vrt.Observe("misuse", p, msg)
			contend(d, "X")
			return nil
		}),
		dag("RUnlock-twice-then-contention", func(d *syncutils.DAGMutex[string]) func() bool {
			d.RLock("X")
			d.RUnlock("X")
			p, msg := expectPanic(func() { d.RUnlock("X") })
			vrt.Observe("misuse", p, msg)
			contend(d, "X")
			return nil
		}),
		dag("Unlock-while-only-reader-holds", func(d *syncutils.DAGMutex[string]) func() bool {
			d.RLock("A")
			p, msg := expectPanic(func() { d.Unlock("A") })
			vrt.Observe("misuse", p, msg)
			if !p {
				// the reader must still hold A: its RUnlock must be legal ...
				p2, msg2 := expectPanic(func() { d.RUnlock("A") })
				if p2 {
					vrt.Fail("misuse|dag-Unlock-while-only-reader-holds|reader-hold-dropped", "Unlock(A) with only a reader holding A did not panic and dropped the reader's registration: the reader's RUnlock(A) panics with %q", msg2)
				}
			}
			return nil
		}),
		dag("RUnlock-while-only-writer-holds", func(d *syncutils.DAGMutex[string]) func() bool {
			d.Lock("A")
			p, msg := expectPanic(func() { d.RUnlock("A") })
			vrt.Observe("misuse", p, msg)
			if !p {
				p2, msg2 := expectPanic(func() { d.Unlock("A") })
				if p2 {
					vrt.Fail("misuse|dag-RUnlock-while-only-writer-holds|writer-hold-dropped", "RUnlock(A) with only a writer holding A did not panic and dropped the writer's registration: the writer's Unlock(A) panics with %q", msg2)
				}
			}
			return nil
		}),
	)
	return out
}

// ---- Counter waits ----

type waitKind struct {
	name string
	wait func(c *syncutils.Counter)
	cond func(v int) bool
}

var waitKinds = []waitKind{
	{"WaitIsZero", func(c *syncutils.Counter) { c.WaitIsZero() }, func(v int) bool { return v < 1 }},
	{"WaitIsBelow2", func(c *syncutils.Counter) { c.WaitIsBelow(2) }, func(v int) bool { return v < 2 }},
	{"WaitIsAbove0", func(c *syncutils.Counter) { c.WaitIsAbove(0) }, func(v int) bool { return v > 0 }},
}

type counterOp struct {
	name string
	do   func(c *syncutils.Counter)
}

var (
	opInc  = counterOp{"Inc", func(c *syncutils.Counter) { c.Increase() }}
	opDec  = counterOp{"Dec", func(c *syncutils.Counter) { c.Decrease() }}
	opSet0 = counterOp{"Set0", func(c *syncutils.Counter) { c.Set(0) }}
	opSet2 = counterOp{"Set2", func(c *syncutils.Counter) { c.Set(2) }}
	opSetM = counterOp{"Set-1", func(c *syncutils.Counter) { c.Set(-1) }}
)

// counterScenario: one waiter, updater threads with scripts, start value.
func counterScenario(wk waitKind, start int, thorough bool, updaters ...[]counterOp) *sched.Scenario {
	var names []string
	for _, u := range updaters {
		var ns []string
		for _, o := range u {
			ns = append(ns, o.name)
		}
		names = append(names, strings.Join(ns, "."))
	}
	name := fmt.Sprintf("counter/%s/start%d/%s", wk.name, start, strings.Join(names, "_"))
	return &sched.Scenario{
		Name:         name,
		ThoroughOnly: thorough,
		Run: func() {
			c := syncutils.NewCounter()
			c.Set(start)
			// timeline of values: the subscriber runs under the counter's lock
			sat := wk.cond(start) // condition held at some point since the call (updated by subscriber)
			called := false
			c.Subscribe(func(_, nv int) {
				if called && wk.cond(nv) {
					sat = true
				}
			})
			returned := false
			w := vrt.Spawn(func() {
				// value at call time counts
				called = true
				sat = wk.cond(c.Get())
				wk.wait(c)
				returned = true
				if !sat {
					vrt.Fail("wait|returned-without-condition|"+wk.name, "%s returned although its condition never held since the call", wk.name)
				}
			})
			var hs []vrt.Handle
			for _, u := range updaters {
				u := u
				hs = append(hs, vrt.Spawn(func() {
					for _, o := range u {
						o.do(c)
					}
				}))
			}
			for _, h := range hs {
				h.Join()
			}
			final := c.Get()
			vrt.Observe("final", final, returned)
			if wk.cond(final) {
				// condition holds at quiescence: the waiter must return (a lost wake-up shows up as a deadlock here)
				w.Join()
			}
		},
	}
}

// counter2Waiters: two waiters of one kind must both be released by one change.
func counter2Waiters(wk waitKind, start int, u []counterOp) *sched.Scenario {
	return &sched.Scenario{Name: fmt.Sprintf("counter/2x%s/start%d", wk.name, start), Run: func() {
		c := syncutils.NewCounter()
		c.Set(start)
		w1 := vrt.Spawn(func() { wk.wait(c) })
		w2 := vrt.Spawn(func() { wk.wait(c) })
		for _, o := range u {
			o.do(c)
		}
		if wk.cond(c.Get()) {
			w1.Join()
			w2.Join()
		}
	}}
}

// ---- Stack waits ----

func stackScenarios() []*sched.Scenario {
	var out []*sched.Scenario
	// PopOrWait with a condition that a shutdown thread turns off, racing with a Push
	out = append(out, &sched.Scenario{Name: "stack/PopOrWait-Push-Shutdown", Run: func() {
		s := syncutils.NewStack[int]()
		var running vatomic.Bool
		running.Store(true)
		var got int
		var ok, ret bool
		var pushed, gaveUpWithElement vatomic.Bool
		w := vrt.Spawn(func() {
			got, ok = s.PopOrWait(func() bool {
				// the condition is only consulted when there is nothing to pop: the only Push has not returned yet
				r := running.Load()
				if !r && pushed.Load() {
					gaveUpWithElement.Store(true)
				}
				return r
			})
			ret = true
		})
		vrt.Par(
			func() { s.Push(7); pushed.Store(true) },
			func() { running.Store(false); s.SignalShutdown() },
		)
		// either the element or the shutdown must release the waiter
		w.Join()
		vrt.Observe("popOrWait", got, ok, ret)
		if ok && got != 7 {
			vrt.Fail("stack|wrong-element", "PopOrWait returned %d", got)
		}
		if !ok && s.Size() != 1 {
			vrt.Fail("stack|lost-element", "PopOrWait failed but the stack has %d elements", s.Size())
		}
		if !ok && gaveUpWithElement.Load() {
			vrt.Fail("stack|PopOrWait-gave-up-with-element", "PopOrWait returned without an element although the element had been pushed before it gave up and nothing else pops")
		}
		if ok && s.Size() != 0 {
			vrt.Fail("stack|dup-element", "PopOrWait succeeded but the stack still has %d elements", s.Size())
		}
	}})
	out = append(out, &sched.Scenario{Name: "stack/PopOrWait-Shutdown", Run: func() {
		s := syncutils.NewStack[int]()
		var running vatomic.Bool
		running.Store(true)
		w := vrt.Spawn(func() {
			_, ok := s.PopOrWait(running.Load)
			vrt.Observe("ret", ok)
		})
		running.Store(false)
		s.SignalShutdown()
		w.Join()
	}})
	out = append(out, &sched.Scenario{Name: "stack/PopOrWait-2waiters-2Push", Run: func() {
		s := syncutils.NewStack[int]()
		always := func() bool { return true }
		sum := 0
		w1 := vrt.Spawn(func() { v, _ := s.PopOrWait(always); sum += v })
		w2 := vrt.Spawn(func() { v, _ := s.PopOrWait(always); sum += v })
		vrt.Par(func() { s.Push(1) }, func() { s.Push(2) })
		w1.Join()
		w2.Join()
		if sum != 3 {
			vrt.Fail("stack|elements-not-conserved", "two pops returned sum %d", sum)
		}
	}})
	// two waiters with the same predicate that consume nothing: one state change must release both
	out = append(out, &sched.Scenario{Name: "stack/2xWaitIsEmpty-Pop", Run: func() {
		s := syncutils.NewStack[int]()
		s.Push(1)
		w1 := vrt.Spawn(func() { s.WaitIsEmpty() })
		w2 := vrt.Spawn(func() { s.WaitIsEmpty() })
		s.Pop()
		w1.Join()
		w2.Join()
	}})
	// waiters with different predicates share one condition variable: a size waiter must not swallow the wake-up of a PopOrWait
	out = append(out, &sched.Scenario{Name: "stack/WaitSizeIsAbove+PopOrWait-Push", Run: func() {
		s := syncutils.NewStack[int]()
		always := func() bool { return true }
		ws := vrt.Spawn(func() { s.WaitSizeIsAbove(1) })
		wp := vrt.Spawn(func() {
			if v, ok := s.PopOrWait(always); !ok || v != 1 {
				vrt.Fail("stack|wrong-element", "PopOrWait returned %d,%v", v, ok)
			}
		})
		s.Push(1)
		wp.Join() // an element is available: PopOrWait must return
		s.Push(2)
		s.Push(3)
		ws.Join()
	}})
	out = append(out, &sched.Scenario{Name: "stack/2xWaitSizeIsAbove-Push", Run: func() {
		s := syncutils.NewStack[int]()
		w1 := vrt.Spawn(func() { s.WaitSizeIsAbove(0) })
		w2 := vrt.Spawn(func() { s.WaitSizeIsAbove(0) })
		s.Push(1)
		w1.Join()
		w2.Join()
	}})
	out = append(out, &sched.Scenario{Name: "stack/WaitIsEmpty-Pop", Run: func() {
		s := syncutils.NewStack[int]()
		s.Push(1)
		s.Push(2)
		w := vrt.Spawn(func() {
			s.WaitIsEmpty()
			// no one pushes in this scenario: once empty, always empty
			if n := s.Size(); n != 0 {
				vrt.Fail("stack|WaitIsEmpty-early", "WaitIsEmpty returned with %d elements", n)
			}
		})
		vrt.Par(func() { s.Pop() }, func() { s.Pop() })
		w.Join()
	}})
	// a consumer parked in PopOrWait takes the pushed element itself: whoever waits for the stack to drain must hear of it
	out = append(out, &sched.Scenario{Name: "stack/PopOrWait-parked+Push+WaitIsEmpty", Run: func() {
		s := syncutils.NewStack[int]()
		c := vrt.Spawn(func() {
			if _, ok := s.PopOrWait(func() bool { return true }); !ok {
				vrt.Fail("stack|PopOrWait-no-element", "PopOrWait returned without an element although one was pushed and nothing else pops")
			}
		})
		vrt.Par(
			func() { s.Push(1) },
			// returns at once when it finds the stack empty (before the Push, or after the consumer took the element);
			// when it arrives in between it must be woken by the consumer's removal
			func() { s.WaitIsEmpty() },
		)
		c.Join()
	}})
	out = append(out, &sched.Scenario{Name: "stack/WaitSizeIsAbove-Push", Run: func() {
		s := syncutils.NewStack[int]()
		w := vrt.Spawn(func() {
			s.WaitSizeIsAbove(1)
			if n := s.Size(); n < 2 {
				vrt.Fail("stack|WaitSizeIsAbove-early", "returned with %d elements", n)
			}
		})
		vrt.Par(func() { s.Push(1) }, func() { s.Push(2) })
		w.Join()
	}})
	return out
}

func main() {
	var scs []*sched.Scenario
	for n := 2; n <= 4; n++ {
		for _, ms := range multisets("WRD", n) {
			scs = append(scs, smScenario(ms))
		}
	}
	A, B, C := "A", "B", "C"
	wr := func(ids ...string) dagOp { return dagOp{true, ids} }
	rd := func(ids ...string) dagOp { return dagOp{false, ids} }
	scs = append(scs,
		dagScenario("LA_LA", false, wr(A), wr(A)),
		dagScenario("LA_RAB", false, wr(A), rd(A, B)),
		dagScenario("LA_RAB_LB", false, wr(A), rd(A, B), wr(B)),
		dagScenario("LB_RAB_RBC", false, wr(B), rd(A, B), rd(B, C)),
		dagScenario("RAB_RAB_LA", false, rd(A, B), rd(A, B), wr(A)),
		dagScenario("duplicate-id-RABA_LA", false, rd(A, B, A), wr(A)),
		dagScenario("duplicate-id-RAA_LA_RA", false, rd(A, A), wr(A), rd(A)),
		dagScenario("nested-LA.LB_RAB", false, wr(A, B), rd(A, B)),
		dagScenario("nested-LA.LB_RAB_LB", false, wr(A, B), rd(A, B), wr(B)),
		dagScenario("nested-LA.LC_RAB_RBC", false, wr(A, C), rd(A, B), rd(B, C)),
		dagScenario("nested-LA.LB_LB.LC_RAC", true, wr(A, B), wr(B, C), rd(A, C)),
		dagScenario("LA_LB_RAB_RBC", true, wr(A), wr(B), rd(A, B), rd(B, C)),
		dagScenario("LA_LB_LC_RABC", true, wr(A), wr(B), wr(C), rd(A, B, C)),
		dagScenario("LA_LA_RA_RA", true, wr(A), wr(A), rd(A), rd(A)),
	)
	scs = append(scs, misuseScenarios()...)
	for _, wk := range waitKinds {
		scs = append(scs,
			counterScenario(wk, 1, false, []counterOp{opDec}, []counterOp{opInc}),
			counterScenario(wk, 2, false, []counterOp{opDec, opDec}, []counterOp{opInc}),
			counterScenario(wk, 0, false, []counterOp{opInc, opDec}, []counterOp{opInc}),
			counterScenario(wk, 1, false, []counterOp{opSet0}, []counterOp{opSet2}),
			// through negative values: the condition can start to hold on the way up as well as on the way down
			counterScenario(wk, 1, false, []counterOp{opDec, opDec}, []counterOp{opInc}),
			counterScenario(wk, 3, false, []counterOp{opSetM, opSet0}, []counterOp{opInc}),
			counterScenario(wk, 1, true, []counterOp{opDec, opInc}, []counterOp{opInc, opDec}),
			counterScenario(wk, 2, true, []counterOp{opSet0, opInc}, []counterOp{opDec}, []counterOp{opInc}),
		)
	}
	scs = append(scs,
		counter2Waiters(waitKinds[0], 1, []counterOp{opDec}),
		counter2Waiters(waitKinds[1], 2, []counterOp{opDec}),
		counter2Waiters(waitKinds[2], 0, []counterOp{opInc}),
	)
	scs = append(scs, stackScenarios()...)
	cli.Main(&cli.Property{
		ID: "C17", Level: "model_checking", Scenarios: scs,
		QuickBound: 2, ThoroughBound: 3, QuickUnbounded: true, ThoroughUnbounded: true, Cache: true,
		RaceHB:    &cli.RaceHB{QuickBound: 1, ThoroughBound: 2},
		QuickSecs: 40, ThoroughSecs: 600,
		Rule: "every interleaving of the scripted threads on the real syncutils code under the controlled scheduler (deviation bound, then all interleavings with happens-before state caching); distinct = distinct (outcome, observation log) pairs",
		Assumptions: []string{
			"vsync models sync.Mutex/RWMutex/Cond/WaitGroup faithfully (selftest compares with the real primitives)",
			"sequential consistency; all inter-thread communication goes through instrumented operations (guarded by the free-running -race pass)",
			"a transient satisfaction of a wait condition that is over before the waiter re-checks need not wake it (condition-variable reading of 'iff')",
		},
		NotReached: []string{"randomized heavy contention (sampling by definition)", "more than 4 threads / 3 entities"},
	})
}
