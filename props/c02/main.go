// C02 — decoders are total and resource-bounded on arbitrary input.
package main

import (
	"context"
	"encoding/json"
	"fmt"
	"math/big"
	"reflect"
	"runtime"
	"runtime/debug"
	"sort"
	"strings"
	"time"

	"github.com/iotaledger/hive.go/serializer/v2/serix"

	"verif/engine/cli"
	"verif/props/serixgen"
)

type recorder struct {
	viol            map[string]*cli.Violation
	evals, distinct int64
	samples         []any
}

func (r *recorder) fail(class, detail string, replay any) {
	if r.viol[class] != nil {
		return
	}
	raw, _ := json.Marshal(replay)
	r.viol[class] = &cli.Violation{Part: "decoders", Engine: "I", Signature: class, Message: detail, Replay: raw}
}

func (r *recorder) result(exhaustive bool, notes ...string) *cli.PartResult {
	pr := &cli.PartResult{Engine: "I", Evaluations: r.evals, Distinct: r.distinct, Exhaustive: exhaustive, Notes: notes, Samples: r.samples}
	if len(pr.Samples) == 0 {
		pr.Samples = []any{fmt.Sprintf("%d decoder calls", r.evals)}
	}
	var sigs []string
	for s := range r.viol {
		sigs = append(sigs, s)
	}
	sort.Strings(sigs)
	for _, s := range sigs {
		pr.Violations = append(pr.Violations, r.viol[s])
	}
	return pr
}

var memStats runtime.MemStats

// allocated returns the cumulative number of heap bytes allocated (ReadMemStats flushes the per-P caches, so the
// difference around one call is exact with GOMAXPROCS=1).
func allocated() uint64 {
	runtime.ReadMemStats(&memStats)
	return memStats.TotalAlloc
}

func topFrame(stack string) string {
	for _, l := range strings.Split(stack, "\n") {
		l = strings.TrimSpace(l)
		if strings.HasPrefix(l, "github.com/iotaledger/hive.go/") {
			if i := strings.LastIndex(l, "("); i > 0 {
				l = l[:i]
			}
			return strings.TrimPrefix(l, "github.com/iotaledger/hive.go/")
		}
	}
	return "?"
}

func msgClass(msg string) string {
	var b strings.Builder
	for _, r := range msg {
		if r >= '0' && r <= '9' {
			continue
		}
		b.WriteRune(r)
		if b.Len() > 80 {
			break
		}
	}
	return b.String()
}

// call runs one decoder call under the oracle: no panic, consumed <= len(input), allocation bounded by the input.
// It returns false when a resource violation was recorded (the caller should stop feeding this target: the
// offending calls are very slow).
func (r *recorder) call(target, inputDesc string, inputLen int, f func() (consumed int)) bool {
	r.evals++
	before := allocated()
	consumed := 0
	var pmsg, pframe string
	func() {
		defer func() {
			if p := recover(); p != nil {
				pmsg, pframe = fmt.Sprint(p), topFrame(string(debug.Stack()))
			}
		}()
		consumed = f()
	}()
	delta := allocated() - before
	rp := map[string]any{"target": target, "input": inputDesc}
	if pmsg != "" {
		r.fail("panic|"+pframe+"|"+msgClass(pmsg), fmt.Sprintf("%s panicked on input %s: %s", target, inputDesc, pmsg), rp)
		return true
	}
	if consumed > inputLen {
		r.fail("consumed-more-than-supplied|"+target, fmt.Sprintf("%s reports %d consumed bytes for the %d-byte input %s", target, consumed, inputLen, inputDesc), rp)
	}
	if limit := uint64(256<<10 + 64*inputLen); delta > limit {
		r.fail("allocation-driven-by-length-field|"+target, fmt.Sprintf("%s allocated %d bytes for the %d-byte input %s (bound %d): allocation follows a length field, not the input", target, delta, inputLen, inputDesc, limit), rp)
		return false
	}
	return true
}

func targetName(n *serixgen.Node) string {
	return strings.TrimSuffix(strings.TrimPrefix(n.Name, "struct{"), "}")
}

func serixStrings(c *cli.Ctx) *cli.PartResult {
	api := serixgen.NewAPI()
	rec := &recorder{viol: map[string]*cli.Violation{}}
	maxLen := 4
	if c.Thorough() {
		maxLen = 6
	}
	singles, larger := order(c, 5)
	bad := map[string]bool{}
	exhaustive := true
	ns := 0
	for i, sh := range append(singles, larger...) {
		if c.Expired() {
			exhaustive = false
			break
		}
		if i >= len(singles) && containsBad(bad, sh) {
			continue
		}
		ns++
		before := len(rec.viol)
		for _, validate := range []bool{false, true} {
			ok := true
			serixgen.AllStrings(maxLen, func(b []byte) {
				if !ok {
					return
				}
				rec.distinct++
				ok = rec.call("serix.Decode["+targetName(sh)+"]", fmt.Sprintf("%x (validate=%v)", b, validate), len(b), func() int {
					customCalls = 0
					_, consumed, _ := serixgen.Decode(api, sh, b, validate)
					return consumed
				})
			})
		}
		if i < len(singles) && len(rec.viol) > before {
			bad[targetName(sh)] = true
		}
	}
	return rec.result(exhaustive, fmt.Sprintf("%d shapes x all byte strings of length <= %d over {00,01,02,7f,80,ff} x validation on/off", ns, maxLen))
}

var customCalls int

// order returns the shapes this shard processes: every single-field shape first (all shards), then its share of the
// larger ones; skip reports larger shapes containing a field kind that already failed alone.
func order(c *cli.Ctx, every int) (singles, larger []*serixgen.Node) {
	shapes := serixgen.Shapes(c.Thorough())
	nk := len(serixgen.FieldKinds())
	for i, sh := range shapes {
		if i < nk {
			singles = append(singles, sh)
			continue
		}
		if i%c.NShards != c.Shard || (!c.Thorough() && i%every != 0) {
			continue
		}
		larger = append(larger, sh)
	}
	return
}

func containsBad(bad map[string]bool, n *serixgen.Node) bool {
	for b := range bad {
		if strings.Contains(n.Name, b) {
			return true
		}
	}
	return false
}

func serixMutations(c *cli.Ctx) *cli.PartResult {
	api := serixgen.NewAPI()
	rec := &recorder{viol: map[string]*cli.Violation{}}
	singles, larger := order(c, 1)
	bad := map[string]bool{}
	exhaustive := true
	ns := 0
	for i, sh := range append(singles, larger...) {
		if c.Expired() {
			exhaustive = false
			break
		}
		if i >= len(singles) && containsBad(bad, sh) {
			continue
		}
		ns++
		before := len(rec.viol)
		for _, v := range sh.Vals() {
			enc, err := func() (b []byte, err error) {
				defer func() {
					if recover() != nil {
						err = fmt.Errorf("panic")
					}
				}()
				return serixgen.Encode(api, sh, v, false)
			}()
			if err != nil {
				continue
			}
			for _, validate := range []bool{false, true} {
				ok := true
				serixgen.Mutations(enc, func(b []byte) {
					if !ok {
						return
					}
					rec.distinct++
					ok = rec.call("serix.Decode["+targetName(sh)+"]", fmt.Sprintf("%x (validate=%v)", b, validate), len(b), func() int {
						_, consumed, _ := serixgen.Decode(api, sh, b, validate)
						return consumed
					})
				})
			}
		}
		if i < len(singles) && len(rec.viol) > before {
			bad[targetName(sh)] = true
		}
	}
	return rec.result(exhaustive, fmt.Sprintf("%d shapes: every single-byte substitution by an alphabet byte, every truncation and every one-byte extension of every valid encoding", ns))
}

// ---------------- JSON ----------------

var atoms = []string{`null`, `true`, `0`, `-1`, `1.5`, `1e40`, `""`, `"x"`, `"0x"`, `"0x00"`, `"zz"`, `[]`, `{}`, `[0]`, `{"a":0}`}

// subst calls f with every document obtained from doc by replacing one subtree by one atom.
func subst(doc any, f func(any)) {
	var walk func(node any, rebuild func(any) any)
	walk = func(node any, rebuild func(any) any) {
		for _, a := range atoms {
			var av any
			_ = json.Unmarshal([]byte(a), &av)
			f(rebuild(av))
		}
		switch x := node.(type) {
		case map[string]any:
			keys := make([]string, 0, len(x))
			for k := range x {
				keys = append(keys, k)
			}
			sort.Strings(keys)
			for _, k := range keys {
				k := k
				walk(x[k], func(repl any) any {
					cp := map[string]any{}
					for kk, vv := range x {
						cp[kk] = vv
					}
					cp[k] = repl
					return rebuild(cp)
				})
			}
			// a missing key
			for _, k := range keys {
				cp := map[string]any{}
				for kk, vv := range x {
					if kk != k {
						cp[kk] = vv
					}
				}
				f(rebuild(cp))
			}
		case []any:
			for i := range x {
				i := i
				walk(x[i], func(repl any) any {
					cp := append([]any{}, x...)
					cp[i] = repl
					return rebuild(cp)
				})
			}
		}
	}
	walk(doc, func(a any) any { return a })
}

func jsonPart(c *cli.Ctx) *cli.PartResult {
	api := serixgen.NewAPI()
	rec := &recorder{viol: map[string]*cli.Violation{}}
	ctx := context.Background()
	shapes := serixgen.Shapes(c.Thorough())
	nk := len(serixgen.FieldKinds())
	exhaustive := true
	ns := 0
	for i, sh := range shapes {
		if i%c.NShards != c.Shard {
			continue
		}
		if i >= nk && !c.Thorough() && i%3 != 0 {
			continue
		}
		if c.Expired() {
			exhaustive = false
			break
		}
		ns++
		tn := "serix.JSONDecode[" + targetName(sh) + "]"
		feed := func(doc any) {
			js, err := json.Marshal(doc)
			if err != nil {
				return
			}
			for _, validate := range []bool{false, true} {
				var opts []serix.Option
				if validate {
					opts = append(opts, serix.WithValidation())
				}
				rec.distinct++
				rec.call(tn, string(js), len(js), func() int {
					q := reflect.New(sh.Type)
					_ = api.JSONDecode(ctx, js, q.Interface(), opts...)
					return 0
				})
				if m, ok := doc.(map[string]any); ok {
					rec.call("serix.MapDecode["+targetName(sh)+"]", string(js), len(js), func() int {
						q := reflect.New(sh.Type)
						_ = api.MapDecode(ctx, m, q.Interface(), opts...)
						return 0
					})
				}
			}
		}
		// top-level atoms
		for _, a := range atoms {
			var av any
			_ = json.Unmarshal([]byte(a), &av)
			feed(av)
		}
		// the well-shaped document of the first values with every subtree replaced by every wrong-kind atom
		vals := sh.Vals()
		if len(vals) > 6 {
			vals = append(vals[:3:3], vals[len(vals)-3:]...)
		}
		for _, v := range vals {
			p := reflect.New(sh.Type)
			p.Elem().Set(v)
			js, err := func() (b []byte, err error) {
				defer func() {
					if recover() != nil {
						err = fmt.Errorf("panic")
					}
				}()
				return api.JSONEncode(ctx, p.Interface())
			}()
			if err != nil {
				continue
			}
			var doc any
			if json.Unmarshal(js, &doc) != nil {
				continue
			}
			if len(rec.samples) < 2 {
				rec.samples = append(rec.samples, fmt.Sprintf("%s: well-shaped %s with every subtree replaced by each of %v", targetName(sh), js, atoms))
			}
			subst(doc, feed)
		}
	}
	// destinations that are not structs: every top-level atom, array of atoms and nested array
	if c.Shard == 0 {
		var docs []any
		for _, a := range atoms {
			var av any
			_ = json.Unmarshal([]byte(a), &av)
			docs = append(docs, av, []any{av}, []any{av, av}, []any{[]any{av}}, map[string]any{"k": av})
		}
		for _, t := range []reflect.Type{
			reflect.TypeOf([]uint64{}), reflect.TypeOf(uint64(0)), reflect.TypeOf(int8(0)), reflect.TypeOf(true), reflect.TypeOf([]string{}), reflect.TypeOf(""),
			reflect.TypeOf(time.Time{}), reflect.TypeOf([4]byte{}), reflect.TypeOf([]byte{}), reflect.TypeOf(map[string]uint8{}), reflect.TypeOf(&big.Int{}),
			reflect.TypeOf(serixgen.Str8("")), reflect.TypeOf(serixgen.LexU16s{}), reflect.TypeOf(float64(0)), reflect.TypeOf([][]uint16{}),
		} {
			t := t
			ns++
			for _, doc := range docs {
				js, err := json.Marshal(doc)
				if err != nil {
					continue
				}
				for _, validate := range []bool{false, true} {
					var opts []serix.Option
					if validate {
						opts = append(opts, serix.WithValidation())
					}
					rec.distinct++
					rec.call("serix.JSONDecode["+t.String()+"]", string(js), len(js), func() int {
						q := reflect.New(t)
						_ = api.JSONDecode(ctx, js, q.Interface(), opts...)
						return 0
					})
				}
			}
		}
	}
	return rec.result(exhaustive, fmt.Sprintf("%d shapes: top-level atoms and every single-subtree replacement (and every missing key) of well-shaped documents, through JSONDecode and MapDecode; 15 non-struct destinations with every atom, arrays of atoms, nested arrays and one-key objects at the top level", ns))
}

func main() {
	parts := []*cli.Part{
		{Name: "serix-strings", Run: serixStrings, Shards: 16, ShardsQuick: 8},
		{Name: "serix-mutations", Run: serixMutations, Shards: 16, ShardsQuick: 8},
		{Name: "json", Run: jsonPart, Shards: 16, ShardsQuick: 8},
		{Name: "primitives", Run: primitivesPart},
	}
	cli.Main(&cli.Property{
		ID: "C02", Level: "exploration", Parts: parts, QuickSecs: 60, ThoroughSecs: 900,
		Rule:        "for every target shape of the C01 grammar and validation on/off: all byte strings of length <= 4 (thorough 6) over {00,01,02,7f,80,ff}, the complete single-byte mutation/truncation/extension neighbourhood of every valid encoding, and for the JSON form every top-level atom and every single-subtree replacement by a wrong-kind atom (or missing key) of well-shaped documents, through JSONDecode and MapDecode; the same byte strings through every Deserializer primitive, every stream Read* helper with all prefix widths, typeutils *FromBytes and SerializableOrderedMap.Decode; oracle per call: no panic, consumed <= supplied, bytes allocated (runtime.MemStats.TotalAlloc) <= 256 KiB + 64 x input length, element-decoder calls <= input length + 1; distinct_nontrivial = distinct (target, input) pairs",
		Assumptions: []string{"allocation is measured, not proved (runtime.MemStats.TotalAlloc around every call, GOMAXPROCS=1)", "after the first resource violation of a target the remaining inputs of that target are skipped (each offending call allocates gigabytes)"},
		NotReached:  []string{"iteration bounded only by zero-size elements (a sequence of empty structs with a 2^32-1 length prefix) is not decided", "byte strings longer than 6 outside the mutation neighbourhoods"},
	})
}
