package main

import (
	"fmt"
	"io"
	"math/big"
	"time"

	"github.com/iotaledger/hive.go/ds/serializableorderedmap"
	"github.com/iotaledger/hive.go/serializer/v2"
	"github.com/iotaledger/hive.go/serializer/v2/stream"
	"github.com/iotaledger/hive.go/serializer/v2/typeutils"

	"verif/engine/cli"
	"verif/props/serixgen"
)

type oneByteReader struct {
	b   []byte
	pos int
}

func (r *oneByteReader) Read(p []byte) (int, error) {
	if r.pos >= len(r.b) {
		return 0, io.EOF
	}
	if len(p) == 0 {
		return 0, nil
	}
	p[0] = r.b[r.pos]
	r.pos++
	return 1, nil
}

// hSer is a minimal legacy Serializable: a uint32 type code followed by one byte.
type hSer struct {
	T uint32
	V byte
}

func (h *hSer) Deserialize(data []byte, _ serializer.DeSerializationMode, _ interface{}) (int, error) {
	if len(data) < 5 {
		return 0, fmt.Errorf("hSer: short input")
	}
	h.T = uint32(data[0]) | uint32(data[1])<<8 | uint32(data[2])<<16 | uint32(data[3])<<24
	h.V = data[4]
	return 5, nil
}
func (h *hSer) Serialize(serializer.DeSerializationMode, interface{}) ([]byte, error) {
	return []byte{byte(h.T), byte(h.T >> 8), byte(h.T >> 16), byte(h.T >> 24), h.V}, nil
}
func (h *hSer) MarshalJSON() ([]byte, error) { return []byte("{}"), nil }
func (h *hSer) UnmarshalJSON([]byte) error   { return nil }

// hSerByte has a one-byte type code.
type hSerByte struct{ T, V byte }

func (h *hSerByte) Deserialize(data []byte, _ serializer.DeSerializationMode, _ interface{}) (int, error) {
	if len(data) < 2 {
		return 0, fmt.Errorf("hSerByte: short input")
	}
	h.T, h.V = data[0], data[1]
	return 2, nil
}
func (h *hSerByte) Serialize(serializer.DeSerializationMode, interface{}) ([]byte, error) {
	return []byte{h.T, h.V}, nil
}
func (h *hSerByte) MarshalJSON() ([]byte, error) { return []byte("{}"), nil }
func (h *hSerByte) UnmarshalJSON([]byte) error   { return nil }

func primitivesPart(c *cli.Ctx) *cli.PartResult {
	rec := &recorder{viol: map[string]*cli.Violation{}}
	maxLen := 5
	if c.Thorough() {
		maxLen = 6
	}
	nop := func(err error) error { return err }
	lts := map[string]serializer.SeriLengthPrefixType{"u8": serializer.SeriLengthPrefixTypeAsByte, "u16": serializer.SeriLengthPrefixTypeAsUint16, "u32": serializer.SeriLengthPrefixTypeAsUint32}
	type target struct {
		name string
		f    func(b []byte) int
	}
	var targets []target
	add := func(name string, f func(b []byte) int) { targets = append(targets, target{name, f}) }
	done := func(d *serializer.Deserializer) int { n, _ := d.Done(); return n }
	add("Deserializer.ReadNum[uint64]", func(b []byte) int { var x uint64; return done(serializer.NewDeserializer(b).ReadNum(&x, nop)) })
	add("Deserializer.ReadNum[int16]", func(b []byte) int { var x int16; return done(serializer.NewDeserializer(b).ReadNum(&x, nop)) })
	add("Deserializer.ReadNum[float32]", func(b []byte) int { var x float32; return done(serializer.NewDeserializer(b).ReadNum(&x, nop)) })
	add("Deserializer.ReadBool", func(b []byte) int { var x bool; return done(serializer.NewDeserializer(b).ReadBool(&x, nop)) })
	add("Deserializer.ReadByte", func(b []byte) int { var x byte; return done(serializer.NewDeserializer(b).ReadByte(&x, nop)) })
	add("Deserializer.ReadUint256", func(b []byte) int { var x *big.Int; return done(serializer.NewDeserializer(b).ReadUint256(&x, nop)) })
	add("Deserializer.ReadTime", func(b []byte) int { var x time.Time; return done(serializer.NewDeserializer(b).ReadTime(&x, nop)) })
	add("Deserializer.ReadBytes(3)", func(b []byte) int { var x []byte; return done(serializer.NewDeserializer(b).ReadBytes(&x, 3, nop)) })
	guard32 := func(ty uint32) (serializer.Serializable, error) {
		if ty <= 2 {
			return &hSer{}, nil
		}
		return nil, fmt.Errorf("unknown type %d", ty)
	}
	guard8 := func(ty uint32) (serializer.Serializable, error) {
		if ty <= 2 {
			return &hSerByte{}, nil
		}
		return nil, fmt.Errorf("unknown type %d", ty)
	}
	for _, mode := range []serializer.DeSerializationMode{serializer.DeSeriModeNoValidation, serializer.DeSeriModePerformValidation} {
		mode := mode
		mn := fmt.Sprintf("mode%d", mode)
		add("Deserializer.ReadPayload("+mn+")", func(b []byte) int {
			var x serializer.Serializable
			return done(serializer.NewDeserializer(b).ReadPayload(&x, mode, nil, guard32, nop))
		})
		add("Deserializer.ReadObject(uint32,"+mn+")", func(b []byte) int {
			var x serializer.Serializable
			return done(serializer.NewDeserializer(b).ReadObject(&x, mode, nil, serializer.TypeDenotationUint32, guard32, nop))
		})
		add("Deserializer.ReadObject(byte,"+mn+")", func(b []byte) int {
			var x serializer.Serializable
			return done(serializer.NewDeserializer(b).ReadObject(&x, mode, nil, serializer.TypeDenotationByte, guard8, nop))
		})
		for ln, lt := range lts {
			ln, lt := ln, lt
			add("Deserializer.ReadSliceOfObjects("+ln+",byte,"+mn+")", func(b []byte) int {
				n := 0
				rules := &serializer.ArrayRules{Guards: serializer.SerializableGuard{ReadGuard: guard8}}
				return done(serializer.NewDeserializer(b).ReadSliceOfObjects(func(s serializer.Serializables) { n = len(s) }, mode, nil, lt, serializer.TypeDenotationByte, rules, nop)) + 0*n
			})
		}
	}
	add("Deserializer.ReadBytesInPlace(3)", func(b []byte) int {
		var x [3]byte
		return done(serializer.NewDeserializer(b).ReadBytesInPlace(x[:], nop))
	})
	add("Deserializer.ReadNum[uint16]+Skip(3)+ReadByte", func(b []byte) int {
		var x uint16
		var y byte
		return done(serializer.NewDeserializer(b).ReadNum(&x, nop).Skip(3, nop).ReadByte(&y, nop))
	})
	add("Deserializer.ReadByte+Skip(1)+RemainingBytes", func(b []byte) int {
		var y byte
		d := serializer.NewDeserializer(b).ReadByte(&y, nop).Skip(1, nop)
		_ = d.RemainingBytes()
		return done(d)
	})
	for _, width := range []int{1, 2, 3} {
		width := width
		for mn, mode := range map[string]serializer.ArrayValidationMode{"amo-byte": serializer.ArrayValidationModeAtMostOneOfEachTypeByte, "amo-uint32": serializer.ArrayValidationModeAtMostOneOfEachTypeUint32, "nodup+lex": serializer.ArrayValidationModeNoDuplicates | serializer.ArrayValidationModeLexicalOrdering} {
			mode := mode
			add(fmt.Sprintf("Deserializer.ReadSequenceOfObjects(u8,%s,%d-byte elements)", mn, width), func(b []byte) int {
				d := serializer.NewDeserializer(b)
				d.ReadSequenceOfObjects(func(rest []byte) (int, error) {
					if len(rest) < width {
						return 0, fmt.Errorf("short")
					}
					return width, nil
				}, serializer.DeSeriModePerformValidation, serializer.SeriLengthPrefixTypeAsByte, &serializer.ArrayRules{ValidationMode: mode}, nop)
				return done(d)
			})
		}
	}
	add("Deserializer.Skip(2)+ReadByte", func(b []byte) int {
		var x byte
		return done(serializer.NewDeserializer(b).Skip(2, nop).ReadByte(&x, nop))
	})
	add("Deserializer.ReadPayloadLength", func(b []byte) int {
		d := serializer.NewDeserializer(b)
		_, _ = d.ReadPayloadLength()
		return done(d)
	})
	add("Deserializer.GetObjectType(byte)", func(b []byte) int {
		d := serializer.NewDeserializer(b)
		_, _ = d.GetObjectType(serializer.TypeDenotationByte)
		return done(d)
	})
	add("Deserializer.GetObjectType(uint32)", func(b []byte) int {
		d := serializer.NewDeserializer(b)
		_, _ = d.GetObjectType(serializer.TypeDenotationUint32)
		return done(d)
	})
	add("Deserializer.CheckTypePrefix(uint32)", func(b []byte) int {
		return done(serializer.NewDeserializer(b).CheckTypePrefix(1, serializer.TypeDenotationUint32, nop))
	})
	for ln, lt := range lts {
		ln, lt := ln, lt
		add("Deserializer.ReadVariableByteSlice("+ln+")", func(b []byte) int {
			var x []byte
			return done(serializer.NewDeserializer(b).ReadVariableByteSlice(&x, lt, nop, 0, 0))
		})
		add("Deserializer.ReadString("+ln+")", func(b []byte) int {
			var x string
			return done(serializer.NewDeserializer(b).ReadString(&x, lt, nop, 0, 0))
		})
		add("Deserializer.ReadSequenceOfObjects("+ln+")", func(b []byte) int {
			d := serializer.NewDeserializer(b)
			calls := 0
			d.ReadSequenceOfObjects(func(rest []byte) (int, error) {
				calls++
				if len(rest) < 1 {
					return 0, fmt.Errorf("short")
				}
				return 1, nil
			}, serializer.DeSeriModePerformValidation, lt, &serializer.ArrayRules{}, nop)
			if calls > len(b)+1 {
				panic(fmt.Sprintf("element decoder called %d times for %d input bytes", calls, len(b)))
			}
			return done(d)
		})
	}
	slts := map[string]serializer.SeriLengthPrefixType{"u8": serializer.SeriLengthPrefixTypeAsByte, "u16": serializer.SeriLengthPrefixTypeAsUint16, "u32": serializer.SeriLengthPrefixTypeAsUint32, "u64": serializer.SeriLengthPrefixTypeAsUint64}
	for ln, lt := range slts {
		ln, lt := ln, lt
		for _, rd := range []string{"whole", "bytewise"} {
			rd := rd
			reader := func(b []byte) io.Reader {
				if rd == "whole" {
					return stream.NewByteReader(b)
				}
				return &oneByteReader{b: b}
			}
			add("stream.ReadBytesWithSize("+ln+","+rd+")", func(b []byte) int { _, _ = stream.ReadBytesWithSize(reader(b), lt); return 0 })
			add("stream.ReadObjectWithSize("+ln+","+rd+")", func(b []byte) int {
				_, _ = stream.ReadObjectWithSize(reader(b), lt, func(x []byte) (int, int, error) { return 0, len(x), nil })
				return 0
			})
			add("stream.ReadCollection("+ln+","+rd+")", func(b []byte) int {
				r := reader(b)
				calls := 0
				_ = stream.ReadCollection(r, lt, func(int) error {
					calls++
					_, err := stream.Read[uint8](r)
					return err
				})
				if calls > len(b)+1 {
					panic(fmt.Sprintf("collection callback called %d times for %d input bytes", calls, len(b)))
				}
				return 0
			})
		}
	}
	add("stream.Read[uint64]", func(b []byte) int { _, _ = stream.Read[uint64](stream.NewByteReader(b)); return 0 })
	add("stream.ReadBytes(4)", func(b []byte) int { _, _ = stream.ReadBytes(stream.NewByteReader(b), 4); return 0 })
	add("typeutils.Uint64FromBytes", func(b []byte) int { _, n, _ := typeutils.Uint64FromBytes(b); return n })
	add("typeutils.ByteArray32FromBytes", func(b []byte) int { _, n, _ := typeutils.ByteArray32FromBytes(b); return n })
	api := serixgen.NewAPI()
	add("SerializableOrderedMap[uint8,uint16].Decode", func(b []byte) int {
		m := serializableorderedmap.New[uint8, uint16]()
		n, _ := m.Decode(api, b)
		return n
	})
	add("SerializableOrderedMap[Str8,Custom].Decode", func(b []byte) int {
		m := serializableorderedmap.New[serixgen.Str8, serixgen.Custom]()
		n, _ := m.Decode(api, b)
		return n
	})
	for _, t := range targets {
		ok := true
		serixgen.AllStrings(maxLen, func(b []byte) {
			if !ok {
				return
			}
			rec.distinct++
			cp := append([]byte{}, b...)
			ok = rec.call(t.name, fmt.Sprintf("%x", b), len(b), func() int { return t.f(cp) })
		})
		// hostile full-width prefixes
		for _, b := range [][]byte{{0xff, 0xff, 0xff, 0xff, 0xff, 0xff, 0xff, 0xff}, {0xff, 0xff, 0xff, 0x7f, 0, 0, 0, 0, 1}, {0, 0, 0, 0, 0, 0, 0, 0x80}, {0xff, 0xff, 0xff, 0xff, 0xff, 0xff, 0xff, 0x7f, 1, 2}} {
			if !ok {
				break
			}
			rec.distinct++
			cp := append([]byte{}, b...)
			ok = rec.call(t.name, fmt.Sprintf("%x", b), len(b), func() int { return t.f(cp) })
		}
	}
	rec.samples = append(rec.samples, fmt.Sprintf("%d primitive decoders, each fed every byte string of length <= %d over the alphabet and 4 hostile full-width prefixes", len(targets), maxLen))
	return rec.result(true)
}
