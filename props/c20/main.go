// C20 — Daemon stops background workers in descending shutdown order.
package main

import (
	"context"
	"errors"
	"fmt"
	"math"

	"github.com/iotaledger/hive.go/app/daemon"

	"verif/engine/cli"
	"verif/engine/sched"
	"verif/vcontext"
	"verif/vrt"
)

type wspec struct {
	name  string
	order int
	// behaviour
	early      bool // returns immediately without waiting for its context
	lateYields int  // yields between seeing the cancellation and returning
	onStopped  bool // returns as soon as the daemon's ContextStopped is cancelled (instead of its own context)
}

type world struct {
	d       *daemon.OrderedDaemon
	order   map[string]int
	ctxOf   map[string]int // worker name (latest incarnation) -> context id
	started map[string]bool
}

func newWorld() *world {
	return &world{d: daemon.New(), order: map[string]int{}, ctxOf: map[string]int{}, started: map[string]bool{}}
}

func (w *world) handler(s wspec) daemon.WorkerFunc {
	return func(ctx context.Context) {
		w.started[s.name] = true
		w.ctxOf[s.name] = vcontext.IDOf(ctx)
		vrt.Observe("start", s.name, s.order, vcontext.IDOf(ctx))
		if !s.early {
			if s.onStopped {
				vrt.Recv(w.d.ContextStopped().Done())
			} else {
				vrt.Recv(ctx.Done())
			}
			vrt.Observe("cancel-seen", s.name)
			for i := 0; i < s.lateYields; i++ {
				vrt.Yield()
			}
		}
		vrt.Observe("return", s.name, s.order, vcontext.IDOf(ctx))
	}
}

func (w *world) add(s wspec) error {
	w.order[s.name] = s.order
	return w.d.BackgroundWorker(s.name, w.handler(s), s.order)
}

// judge evaluates the ordering oracle on the log. upto is the log position of the ShutdownAndWait return.
func (w *world) judge() {
	log := vrt.E.Log
	type inc struct {
		name       string
		order      int
		start, ret int
		cancel     int
	}
	var incs []*inc
	byCtx := map[int]*inc{}
	shutdownRet, runRet := -1, -1
	for i, ev := range log {
		switch ev.Kind {
		case "start":
			x := &inc{name: ev.Args[0].(string), order: ev.Args[1].(int), start: i, ret: -1, cancel: -1}
			incs = append(incs, x)
			byCtx[ev.Args[2].(int)] = x
		case "return":
			if x := byCtx[ev.Args[2].(int)]; x != nil {
				x.ret = i
			}
		case "ctx.cancel":
			if x := byCtx[ev.Args[0].(int)]; x != nil && x.cancel < 0 {
				x.cancel = i
			}
		case "shutdown.ret":
			if shutdownRet < 0 {
				shutdownRet = i
			}
		case "run.ret":
			if runRet < 0 {
				runRet = i
			}
		}
	}
	// contexts may be cancelled before the worker's start event was logged (cancel index unknown then): look again
	for i, ev := range log {
		if ev.Kind == "ctx.cancel" {
			for _, x := range incs {
				if x.cancel < 0 && w.ctxIDAt(log, x) == ev.Args[0].(int) {
					x.cancel = i
				}
			}
		}
	}
	for _, lo := range incs {
		if lo.cancel < 0 {
			continue
		}
		if lo.ret >= 0 && lo.ret < lo.cancel {
			continue // had already returned when it was cancelled: unobservable
		}
		for _, hi := range incs {
			if hi.order <= lo.order || hi.start > lo.cancel {
				continue
			}
			if hi.ret < 0 || hi.ret > lo.cancel {
				vrt.Fail("order|lower-cancelled-before-higher-returned", "worker %s (order %d) was cancelled while worker %s (order %d) had not returned yet", lo.name, lo.order, hi.name, hi.order)
			}
		}
	}
	if runRet >= 0 {
		for _, x := range incs {
			if x.start < runRet && (x.ret < 0 || x.ret > runRet) {
				vrt.Fail("wait|run-returned-with-running-worker", "Run returned while started worker %s (order %d) had not returned", x.name, x.order)
			}
		}
	}
	if shutdownRet >= 0 {
		for _, x := range incs {
			if x.start < shutdownRet && (x.ret < 0 || x.ret > shutdownRet) {
				vrt.Fail("wait|shutdown-returned-with-running-worker", "ShutdownAndWait returned while started worker %s (order %d) had not returned", x.name, x.order)
			}
			if x.start > shutdownRet {
				vrt.Fail("late|worker-started-after-shutdown", "worker %s started after ShutdownAndWait returned", x.name)
			}
		}
	}
}

func (w *world) ctxIDAt(log []vrt.Event, x interface{}) int { return -1 }

func (w *world) shutdownAndWait() {
	vrt.Observe("shutdown.call")
	w.d.ShutdownAndWait()
	vrt.Observe("shutdown.ret")
}

func scenarios() []*sched.Scenario {
	var out []*sched.Scenario
	add := func(name string, thor bool, run func(w *world)) {
		out = append(out, &sched.Scenario{Name: name, ThoroughOnly: thor, Run: func() {
			w := newWorld()
			run(w)
			vrt.Quiesce()
			w.judge()
		}})
	}
	for _, orders := range [][3]int{{2, 1, 1}, {1, 0, -1}, {0, 2, 0}, {-1, -1, 2}} {
		orders := orders
		add(fmt.Sprintf("three-before-start/%d_%d_%d", orders[0], orders[1], orders[2]), orders != [3]int{2, 1, 1} && orders != [3]int{1, 0, -1}, func(w *world) {
			_ = w.add(wspec{name: "a", order: orders[0], lateYields: 1})
			_ = w.add(wspec{name: "b", order: orders[1]})
			_ = w.add(wspec{name: "c", order: orders[2], lateYields: 2})
			w.d.Start()
			w.shutdownAndWait()
		})
	}
	add("added-while-running-then-shutdown", false, func(w *world) {
		_ = w.add(wspec{name: "a", order: 1, lateYields: 1})
		w.d.Start()
		_ = w.add(wspec{name: "b", order: 2, lateYields: 1})
		_ = w.add(wspec{name: "c", order: 0})
		w.shutdownAndWait()
	})
	add("register-vs-shutdown", false, func(w *world) {
		_ = w.add(wspec{name: "a", order: 1})
		w.d.Start()
		var err error
		r := vrt.Spawn(func() { err = w.add(wspec{name: "b", order: 2}) })
		w.shutdownAndWait()
		r.Join()
		vrt.Observe("register", err == nil)
		if err != nil && !errors.Is(err, daemon.ErrDaemonAlreadyStopped) {
			vrt.Fail("register|unexpected-error", "BackgroundWorker racing with shutdown returned %v", err)
		}
	})
	add("early-exit-and-reregister", false, func(w *world) {
		_ = w.add(wspec{name: "a", order: 2, early: true})
		_ = w.add(wspec{name: "b", order: 1})
		w.d.Start()
		// re-register "a" while the daemon runs: refused while it is still running, accepted afterwards
		err := w.add(wspec{name: "a", order: 3, lateYields: 1})
		vrt.Observe("reregister", err == nil)
		if err != nil && !errors.Is(err, daemon.ErrExistingBackgroundWorkerStillRunning) {
			vrt.Fail("register|unexpected-error", "re-registering a name returned %v", err)
		}
		w.shutdownAndWait()
	})
	add("duplicate-running-name", false, func(w *world) {
		_ = w.add(wspec{name: "a", order: 1})
		w.d.Start()
		vrt.Quiesce() // a is certainly running now
		if err := w.add(wspec{name: "a", order: 1}); !errors.Is(err, daemon.ErrExistingBackgroundWorkerStillRunning) {
			vrt.Fail("register|running-name-not-refused", "registering the name of a running worker returned %v", err)
		}
		w.shutdownAndWait()
		if err := w.add(wspec{name: "z", order: 1}); !errors.Is(err, daemon.ErrDaemonAlreadyStopped) {
			vrt.Fail("register|accepted-after-shutdown", "BackgroundWorker after shutdown returned %v", err)
		}
		w.d.Start()
	})
	add("two-shutdown-callers", false, func(w *world) {
		_ = w.add(wspec{name: "a", order: 2, lateYields: 1})
		_ = w.add(wspec{name: "b", order: 1})
		w.d.Start()
		s2 := vrt.Spawn(func() {
			w.d.ShutdownAndWait()
			vrt.Observe("shutdown.ret")
		})
		w.shutdownAndWait()
		s2.Join()
	})
	add("async-shutdown-then-wait", false, func(w *world) {
		_ = w.add(wspec{name: "a", order: 2, lateYields: 1})
		_ = w.add(wspec{name: "b", order: 1})
		w.d.Start()
		w.d.Shutdown()
		w.shutdownAndWait()
	})
	add("run-and-shutdown", false, func(w *world) {
		_ = w.add(wspec{name: "a", order: 2, lateYields: 1})
		_ = w.add(wspec{name: "b", order: 1})
		r := vrt.Spawn(func() {
			w.d.Run()
			vrt.Observe("run.ret")
			if !w.started["a"] || !w.started["b"] {
				vrt.Fail("run|returned-before-start", "Run returned before the workers were started")
			}
		})
		vrt.Quiesce()
		w.shutdownAndWait()
		r.Join()
	})
	add("run/lowest-order-exits-early", false, func(w *world) {
		_ = w.add(wspec{name: "a", order: 2, lateYields: 1})
		_ = w.add(wspec{name: "b", order: 1, early: true})
		_ = w.add(wspec{name: "c", order: 1, early: true})
		r := vrt.Spawn(func() {
			w.d.Run()
			vrt.Observe("run.ret")
		})
		vrt.Quiesce() // the whole lowest-order group has returned on its own; a is still running, so Run must not return
		w.shutdownAndWait()
		r.Join()
	})
	add("same-order-worker-added-while-running", false, func(w *world) {
		_ = w.add(wspec{name: "a", order: 1, lateYields: 2})
		_ = w.add(wspec{name: "z", order: 0})
		w.d.Start()
		vrt.Settle()
		_ = w.add(wspec{name: "b", order: 1})
		w.shutdownAndWait()
	})
	add("equal-order-cancelled-together", false, func(w *world) {
		// x returns only after y has seen its cancellation: a daemon that waits for x before cancelling y never finishes
		ySeen := make(chan struct{})
		w.order["x"], w.order["y"] = 1, 1
		_ = w.d.BackgroundWorker("x", func(ctx context.Context) {
			vrt.Observe("start", "x", 1, vcontext.IDOf(ctx))
			vrt.Recv(ctx.Done())
			vrt.Recv(ySeen)
			vrt.Observe("return", "x", 1, vcontext.IDOf(ctx))
		}, 1)
		_ = w.d.BackgroundWorker("y", func(ctx context.Context) {
			vrt.Observe("start", "y", 1, vcontext.IDOf(ctx))
			vrt.Recv(ctx.Done())
			vrt.Close(ySeen)
			vrt.Observe("return", "y", 1, vcontext.IDOf(ctx))
		}, 1)
		_ = w.add(wspec{name: "h", order: 2})
		w.d.Start()
		w.shutdownAndWait()
	})
	add("lower-order-exits-on-its-own", false, func(w *world) {
		_ = w.add(wspec{name: "a", order: 4, lateYields: 1})
		_ = w.add(wspec{name: "b", order: 3, lateYields: 2})
		_ = w.add(wspec{name: "c", order: 2, onStopped: true})
		_ = w.add(wspec{name: "e", order: 1})
		w.d.Start()
		w.shutdownAndWait()
	})
	// a worker that is not the last of the shutdown sequence returns on its own; nothing is registered afterwards; the
	// remaining workers must still be stopped in descending order
	add("highest-order-exits-early-then-shutdown", false, func(w *world) {
		_ = w.add(wspec{name: "high", order: 10, early: true})
		_ = w.add(wspec{name: "mid", order: 5, lateYields: 2})
		_ = w.add(wspec{name: "low", order: 1})
		w.d.Start()
		vrt.Settle() // the early worker has returned and has been cleaned up
		w.shutdownAndWait()
	})
	add("middle-order-exits-early-then-shutdown/4-workers", false, func(w *world) {
		_ = w.add(wspec{name: "a", order: 10, lateYields: 1})
		_ = w.add(wspec{name: "b", order: 7, early: true})
		_ = w.add(wspec{name: "c", order: 3, lateYields: 2})
		_ = w.add(wspec{name: "d", order: 1})
		w.d.Start()
		vrt.Settle()
		w.shutdownAndWait()
	})
	// extreme priorities ("always first" / "always last"): orders whose difference does not fit an int
	// read-only queries while the daemon runs must not disturb the shutdown sequence
	add("query-running-workers-then-shutdown", false, func(w *world) {
		_ = w.add(wspec{name: "a", order: 3, lateYields: 1})
		_ = w.add(wspec{name: "b", order: 2, lateYields: 2})
		_ = w.add(wspec{name: "c", order: 1})
		w.d.Start()
		vrt.Settle()
		got := w.d.GetRunningBackgroundWorkers()
		if len(got) != 3 {
			vrt.Fail("running-workers", "GetRunningBackgroundWorkers returned %v with three workers running", got)
		}
		_ = w.d.GetRunningBackgroundWorkers()
		_ = w.d.GetRunningBackgroundWorkers()
		w.shutdownAndWait()
	})
	add("extreme-orders", false, func(w *world) {
		_ = w.add(wspec{name: "last", order: math.MinInt})
		_ = w.add(wspec{name: "api", order: 1, lateYields: 2})
		_ = w.add(wspec{name: "first", order: math.MaxInt, lateYields: 1})
		w.d.Start()
		w.shutdownAndWait()
	})
	// shutdown before the daemon was ever started: nothing may be started afterwards, neither by Start nor by Run
	for _, how := range []string{"start", "run"} {
		how := how
		add("shutdown-before-start-then-"+how, false, func(w *world) {
			_ = w.add(wspec{name: "a", order: 2, lateYields: 1})
			_ = w.add(wspec{name: "b", order: 1})
			w.shutdownAndWait()
			if how == "start" {
				w.d.Start()
			} else {
				w.d.Run()
				vrt.Observe("run.ret")
			}
			vrt.Quiesce()
			if w.started["a"] || w.started["b"] {
				vrt.Fail("late|worker-started-after-shutdown", "a worker registered before the shutdown was started by %s after ShutdownAndWait had returned", how)
			}
			if w.d.IsRunning() {
				vrt.Fail("late|running-after-shutdown", "IsRunning reports true after shutdown followed by %s", how)
			}
			if err := w.add(wspec{name: "z", order: 1}); !errors.Is(err, daemon.ErrDaemonAlreadyStopped) {
				vrt.Fail("register|accepted-after-shutdown", "BackgroundWorker after shutdown returned %v", err)
			}
		})
	}
	add("start-vs-shutdown", false, func(w *world) {
		_ = w.add(wspec{name: "a", order: 2, lateYields: 1})
		_ = w.add(wspec{name: "b", order: 1})
		r := vrt.Spawn(func() { w.d.Start() })
		w.shutdownAndWait()
		r.Join()
	})
	add("finish-and-reregister-vs-shutdown", true, func(w *world) {
		_ = w.add(wspec{name: "a", order: 1, early: true})
		_ = w.add(wspec{name: "b", order: 2})
		w.d.Start()
		r := vrt.Spawn(func() { _ = w.add(wspec{name: "a", order: 1}) })
		w.shutdownAndWait()
		r.Join()
	})
	return out
}

func main() {
	cli.Main(&cli.Property{
		ID: "C20", Level: "model_checking", Scenarios: scenarios(),
		QuickBound: 3, ThoroughBound: 4, Cache: true, Delay: true, QuickSecs: 45, ThoroughSecs: 900,
		RaceHB:      &cli.RaceHB{QuickBound: 1, ThoroughBound: 2},
		Rule:        "every interleaving with at most b deviations (delay bounding; the order in which Start walks the worker map is an owned choice) of worker goroutines, BackgroundWorker, Start, Run, Shutdown and ShutdownAndWait callers on the real daemon with virtual contexts; oracle on the recorded log of worker start/return and context-cancel events; distinct = distinct (outcome, observation log)",
		Assumptions: []string{"vcontext models context.WithCancel faithfully (cancellation closes Done through a visible operation)", "cancelling the context of a worker that has already returned is unobservable and not judged"},
		NotReached:  []string{"more than 4 workers", "worker panics"},
	})
}
