// C16 — WorkerPool conserves tasks and always shuts down.
package main

import (
	"fmt"
	"runtime"

	"github.com/iotaledger/hive.go/runtime/workerpool"

	"verif/engine/cli"
	"verif/engine/sched"
	"verif/vrt"
)

// book keeps the harness' view of one pool.
type book struct {
	accepted  int         // increases of the pending counter
	finished  int         // decreases
	runs      map[int]int // task id -> number of runs
	doneStep  int         // step at which shutdown completion was observed (0 = not yet)
	lateStart bool
	cancel    bool
}

func newBook(p *workerpool.WorkerPool, cancel bool) *book {
	b := &book{runs: map[int]int{}, cancel: cancel}
	p.PendingTasksCounter.Subscribe(func(o, n int) {
		if n > o {
			b.accepted += n - o
		} else {
			b.finished += o - n
		}
		if n < 0 {
			vrt.Fail("counter|negative", "pending counter became %d", n)
		}
	})
	return b
}

func (b *book) task(id int, body func()) func() {
	return func() {
		b.runs[id]++
		if b.runs[id] > 1 {
			vrt.Fail("task|run-twice", "task %d ran %d times", id, b.runs[id])
		}
		if b.doneStep != 0 {
			vrt.Fail("task|run-after-shutdown-complete", "task %d started after shutdown completion was observed", id)
		}
		vrt.Observe("run", id)
		if body != nil {
			body()
		}
	}
}

// final checks after shutdown completion.
func (b *book) final(p *workerpool.WorkerPool) {
	totalRuns := 0
	for _, n := range b.runs {
		totalRuns += n
	}
	pend := p.PendingTasksCounter.Get()
	vrt.Observe("final", b.accepted, totalRuns, pend)
	if pend != 0 {
		vrt.Fail("counter|nonzero-after-shutdown", "pending counter is %d after shutdown completed (accepted=%d runs=%d)", pend, b.accepted, totalRuns)
	}
	if !b.cancel && totalRuns != b.accepted {
		vrt.Fail("task|accepted-not-run", "%d tasks accepted but %d ran (no cancel-on-shutdown)", b.accepted, totalRuns)
	}
	if b.cancel && totalRuns > b.accepted {
		vrt.Fail("task|more-runs-than-accepted", "%d accepted, %d ran", b.accepted, totalRuns)
	}
}

func opts(workers int, cancel bool) (string, func() *workerpool.WorkerPool) {
	name := fmt.Sprintf("w%d", workers)
	if cancel {
		name += "c"
	}
	return name, func() *workerpool.WorkerPool {
		return workerpool.New("p", workerpool.WithWorkerCount(workers), workerpool.WithCancelPendingTasksOnShutdown(cancel))
	}
}

func scenarios() []*sched.Scenario {
	var out []*sched.Scenario
	for _, cfg := range []struct {
		workers int
		cancel  bool
		thor    bool
	}{{1, false, false}, {2, false, false}, {1, true, false}, {2, true, true}} {
		cfg := cfg
		cname, mk := opts(cfg.workers, cfg.cancel)

		// (A) submits complete, then shutdown: everything accepted must run (or be cancelled) and shutdown terminates
		out = append(out, &sched.Scenario{Name: "submit2-then-shutdown/" + cname, ThoroughOnly: cfg.thor, Run: func() {
			p := mk()
			b := newBook(p, cfg.cancel)
			p.Start()
			vrt.Par(func() { p.Submit(b.task(1, nil)) }, func() { p.Submit(b.task(2, nil)) })
			if b.accepted != 2 {
				vrt.Fail("submit|not-accepted-while-running", "only %d of 2 submits were accepted on a running pool", b.accepted)
			}
			p.Shutdown()
			p.ShutdownComplete.Wait()
			b.doneStep = vrt.Step()
			b.final(p)
			vrt.Quiesce()
		}})

		// (B) submit races with shutdown
		out = append(out, &sched.Scenario{Name: "submit-vs-shutdown/" + cname, ThoroughOnly: cfg.thor, Run: func() {
			p := mk()
			b := newBook(p, cfg.cancel)
			p.Start()
			s := vrt.Spawn(func() { p.Submit(b.task(1, nil)) })
			p.Shutdown()
			p.ShutdownComplete.Wait()
			b.doneStep = vrt.Step()
			s.Join()
			vrt.Quiesce()
			b.final(p)
		}})

		// (C) a task that submits a task, racing with shutdown
		out = append(out, &sched.Scenario{Name: "nested-submit-vs-shutdown/" + cname, ThoroughOnly: cfg.thor || cfg.workers == 2, Run: func() {
			p := mk()
			b := newBook(p, cfg.cancel)
			p.Start()
			p.Submit(b.task(1, func() { p.Submit(b.task(2, nil)) }))
			p.Shutdown()
			p.ShutdownComplete.Wait()
			b.doneStep = vrt.Step()
			vrt.Quiesce()
			b.final(p)
		}})

		// (D) WaitIsZero returns only when nothing is pending
		out = append(out, &sched.Scenario{Name: "submit2-waitzero/" + cname, ThoroughOnly: cfg.thor || cfg.cancel, Run: func() {
			p := mk()
			b := newBook(p, cfg.cancel)
			p.Start()
			p.Submit(b.task(1, nil))
			p.Submit(b.task(2, nil))
			p.PendingTasksCounter.WaitIsZero()
			if n := len(b.runs); n != 2 {
				vrt.Fail("wait|zero-before-done", "WaitIsZero returned after %d of 2 tasks", n)
			}
			p.Shutdown()
			p.ShutdownComplete.Wait()
			b.doneStep = vrt.Step()
			b.final(p)
		}})

		// (E) restart: Shutdown then Start again, with a racing submit
		out = append(out, &sched.Scenario{Name: "shutdown-start-submit/" + cname, ThoroughOnly: cfg.thor || cfg.workers == 2, Run: func() {
			p := mk()
			b := newBook(p, cfg.cancel)
			p.Start()
			s := vrt.Spawn(func() { p.Submit(b.task(1, nil)) })
			p.Shutdown()
			p.Start()
			s.Join()
			p.Submit(b.task(2, nil))
			p.Shutdown()
			p.ShutdownComplete.Wait()
			b.doneStep = vrt.Step()
			vrt.Quiesce()
			b.final(p)
		}})
	}

	// (F) group: WaitChildren returns only when no pool below the group has pending tasks.
	// Task 1 (pool p1) stays pending until the harness opens its gate; a second task in a pool of a
	// sub-group comes and goes meanwhile.  WaitChildren, called after Submit(task 1) has returned, must
	// not return before the gate is opened.
	out = append(out, &sched.Scenario{Name: "group/waitchildren", QuickMaxBound: 2, Run: func() {
		g := workerpool.NewGroup("g")
		p1 := g.CreatePool("p1", workerpool.WithWorkerCount(1))
		sub := g.CreateGroup("sub")
		p2 := sub.CreatePool("p2", workerpool.WithWorkerCount(1))
		gate := make(chan struct{})
		gateOpen := false
		ran := 0
		p1.Submit(func() { vrt.Recv(gate); ran++ })
		w := vrt.Spawn(func() {
			g.WaitChildren()
			if !gateOpen {
				vrt.Fail("group|waitchildren-early", "WaitChildren returned while a task submitted before the call was still pending in pool p1")
			}
		})
		s2 := vrt.Spawn(func() { p2.Submit(func() { ran++ }) })
		s2.Join()
		p2.PendingTasksCounter.WaitIsZero()
		vrt.Quiesce()
		gateOpen = true
		vrt.Close(gate)
		w.Join()
		g.Shutdown()
		p1.ShutdownComplete.Wait()
		p2.ShutdownComplete.Wait()
		if ran != 2 {
			vrt.Fail("group|tasks-lost", "%d of 2 tasks ran", ran)
		}
		if g.PendingChildrenCounter.Get() != 0 || sub.PendingChildrenCounter.Get() != 0 {
			vrt.Fail("group|counter-nonzero", "group counters %d/%d after everything finished", g.PendingChildrenCounter.Get(), sub.PendingChildrenCounter.Get())
		}
	}})
	// (F2) an observer that has SEEN the pool's pending counter above zero and then waits for the group: the group
	// must already know about the task (the counter's subscribers are told before the new value becomes readable)
	out = append(out, &sched.Scenario{Name: "group/observer-sees-pending-then-waitchildren", QuickMaxBound: 2, Run: func() {
		root := workerpool.NewGroup("root")
		sub := root.CreateGroup("sub")
		p := sub.CreatePool("p", workerpool.WithWorkerCount(1))
		gate := make(chan struct{})
		gateOpen := false
		s := vrt.Spawn(func() { p.Submit(func() { vrt.Recv(gate) }) })
		o := vrt.Spawn(func() {
			saw := p.PendingTasksCounter.Get() > 0
			vrt.Observe("observer-saw-pending", saw)
			if saw {
				root.WaitChildren()
				if !gateOpen {
					vrt.Fail("group|waitchildren-early", "the pool's pending counter was read as 1 (its only task is blocked), then WaitChildren of the root group returned although that task was still pending")
				}
			}
		})
		s.Join()
		vrt.Settle()
		gateOpen = true
		vrt.Close(gate)
		o.Join()
		root.Shutdown()
		p.ShutdownComplete.Wait()
	}})
	// (F3) a caller parked in Queue.WaitSizeIsAbove (threshold never reached) shares the queue's condition variable
	// with the dispatcher: every Submit must still reach the dispatcher
	out = append(out, &sched.Scenario{Name: "queue-waiter-does-not-steal-submits/w1", QuickMaxBound: 2, Run: func() {
		p := workerpool.New("p", workerpool.WithWorkerCount(1))
		b := newBook(p, false)
		p.Start()
		vrt.Spawn(func() { p.Queue.WaitSizeIsAbove(5) }) // stays parked; not joined
		vrt.Settle()
		p.Submit(b.task(1, nil))
		p.PendingTasksCounter.WaitIsZero()
		p.Submit(b.task(2, nil))
		p.PendingTasksCounter.WaitIsZero()
		p.Submit(b.task(3, nil))
		p.PendingTasksCounter.WaitIsZero()
		if b.runs[1]+b.runs[2]+b.runs[3] != 3 {
			vrt.Fail("task|accepted-not-run", "the pending counter is zero but only %d of 3 submitted tasks ran", b.runs[1]+b.runs[2]+b.runs[3])
		}
	}})
	// (F4) more workers than 2 x NumCPU, all of them busy when Shutdown is called, each task touching the pool again
	// afterwards: Shutdown must be able to signal every worker without waiting for any of them
	out = append(out, &sched.Scenario{Name: "shutdown-with-many-busy-workers", QuickMaxBound: 1, MaxBound: 1, NoHB: true, Run: func() {
		n := 2*runtime.NumCPU() + 1
		p := workerpool.New("p", workerpool.WithWorkerCount(n))
		p.Start()
		gate := make(chan struct{})
		ran := 0
		for i := 0; i < n; i++ {
			p.Submit(func() {
				vrt.Recv(gate)
				_ = p.IsRunning()
				ran++
			})
		}
		vrt.Settle() // every worker is inside a task
		sd := vrt.Spawn(func() { p.Shutdown() })
		vrt.Settle() // Shutdown has got as far as it can while the workers are busy
		vrt.Close(gate)
		sd.Join()
		p.ShutdownComplete.Wait()
		if ran != n {
			vrt.Fail("task|accepted-not-run", "%d of %d accepted tasks ran", ran, n)
		}
	}})
	// (F5) a pool created through a Group with cancel-on-shutdown explicitly switched off: the caller's option wins
	// over the group's default, so a backlog that is pending at Shutdown still runs
	out = append(out, &sched.Scenario{Name: "group/pool-with-cancel-off-runs-its-backlog", QuickMaxBound: 2, Run: func() {
		g := workerpool.NewGroup("g")
		p := g.CreatePool("p", workerpool.WithWorkerCount(1), workerpool.WithCancelPendingTasksOnShutdown(false))
		gate := make(chan struct{})
		ran := 0
		p.Submit(func() { vrt.Recv(gate); ran++ })
		p.Submit(func() { ran++ })
		p.Submit(func() { ran++ })
		vrt.Settle() // the worker is inside the first task, two tasks are queued behind it
		sd := vrt.Spawn(func() { p.Shutdown() })
		vrt.Settle()
		vrt.Close(gate)
		sd.Join()
		p.ShutdownComplete.Wait()
		if ran != 3 {
			vrt.Fail("task|accepted-not-run", "%d of 3 accepted tasks ran on a pool whose cancel-on-shutdown option was switched off by the caller", ran)
		}
		if c := p.PendingTasksCounter.Get(); c != 0 {
			vrt.Fail("counter|nonzero-after-shutdown", "pending counter is %d after shutdown completed", c)
		}
	}})
	// (F6) a Submit that is refused with a panic (WithPanicOnSubmitAfterShutdown) is not an accepted task: the
	// counter stays at zero, waits return, and the pool can be restarted and shut down again
	out = append(out, &sched.Scenario{Name: "refused-submit-panics-and-leaves-no-trace/w1", QuickMaxBound: 2, Run: func() {
		root := workerpool.NewGroup("g")
		p := root.CreatePool("p", workerpool.WithWorkerCount(1), workerpool.WithPanicOnSubmitAfterShutdown(true))
		ran := 0
		p.Submit(func() { ran++ })
		p.PendingTasksCounter.WaitIsZero()
		p.Shutdown()
		p.ShutdownComplete.Wait()
		func() {
			defer func() { _ = recover() }()
			p.Submit(func() { ran++ })
		}()
		if c := p.PendingTasksCounter.Get(); c != 0 {
			vrt.Fail("counter|nonzero-after-refused-submit", "a Submit refused after shutdown left the pending counter at %d", c)
		}
		root.WaitChildren()
		if ran != 1 {
			vrt.Fail("task|run-after-shutdown-complete", "%d tasks ran, one was accepted", ran)
		}
	}})
	// (G) nested groups: every level must see the pools below it (root -> mid -> leaf -> pool)
	out = append(out, &sched.Scenario{Name: "group/nested-waitchildren", QuickMaxBound: 2, Run: func() {
		root := workerpool.NewGroup("root")
		mid := root.CreateGroup("mid")
		leaf := mid.CreateGroup("leaf")
		p := leaf.CreatePool("p", workerpool.WithWorkerCount(1))
		gate := make(chan struct{})
		gateOpen := false
		p.Submit(func() { vrt.Recv(gate) })
		var ws []vrt.Handle
		for _, g := range []*workerpool.Group{root, mid, leaf} {
			g := g
			ws = append(ws, vrt.Spawn(func() {
				g.WaitChildren()
				if !gateOpen {
					vrt.Fail("group|waitchildren-early", "WaitChildren of group %s returned while a task submitted before the call was still pending in a pool below it", g.Name())
				}
			}))
		}
		vrt.Quiesce()
		gateOpen = true
		vrt.Close(gate)
		for _, w := range ws {
			w.Join()
		}
		root.Shutdown()
		p.ShutdownComplete.Wait()
	}})
	// (H) a group shuts down every pool below it, whatever happened to their siblings before: one pool (explorer's
	// choice) was shut down on its own first
	out = append(out, &sched.Scenario{Name: "group/shutdown-after-one-pool-was-shut-down", QuickMaxBound: 1, Run: func() {
		g := workerpool.NewGroup("g")
		pools := []*workerpool.WorkerPool{
			g.CreatePool("p1", workerpool.WithWorkerCount(1)),
			g.CreatePool("p2", workerpool.WithWorkerCount(1)),
			g.CreatePool("p3", workerpool.WithWorkerCount(1)),
		}
		sub := g.CreateGroup("sub")
		pools = append(pools, sub.CreatePool("p4", workerpool.WithWorkerCount(1)))
		first := vrt.Choose(3, 0)
		pools[first].Shutdown()
		pools[first].ShutdownComplete.Wait()
		g.Shutdown()
		for _, p := range pools {
			p.ShutdownComplete.Wait() // never returns for a pool the group forgot
			if p.IsRunning() {
				vrt.Fail("group|pool-running-after-group-shutdown", "pool %s still runs after the group was shut down (pool %d had been shut down on its own before)", p.Name, first+1)
			}
		}
		if !g.IsShutdown() || !sub.IsShutdown() {
			vrt.Fail("group|not-shutdown", "IsShutdown is false after Shutdown")
		}
	}})
	// (I) concurrent Start callers (fresh pool, and restart after a shutdown): one of them starts the pool, the other
	// returns; the pool then accepts, runs and shuts down as usual
	for _, restart := range []bool{false, true} {
		restart := restart
		name := "start-vs-start/w1"
		if restart {
			name = "restart-vs-restart/w1"
		}
		out = append(out, &sched.Scenario{Name: name, QuickMaxBound: 2, Run: func() {
			p := workerpool.New("p", workerpool.WithWorkerCount(1))
			b := newBook(p, false)
			if restart {
				p.Start()
				p.Submit(b.task(0, nil))
				p.Shutdown()
				p.ShutdownComplete.Wait()
			}
			vrt.Par(func() { p.Start() }, func() { p.Start() })
			p.Submit(b.task(1, nil))
			p.Shutdown()
			p.ShutdownComplete.Wait()
			b.doneStep = vrt.Step()
			vrt.Quiesce()
			b.final(p)
		}})
	}
	return out
}

func main() {
	cli.Main(&cli.Property{
		ID: "C16", Level: "model_checking", Scenarios: scenarios(),
		QuickBound: 3, ThoroughBound: 4, Cache: true, Delay: true, QuickSecs: 45, ThoroughSecs: 900,
		RaceHB: &cli.RaceHB{QuickBound: 1, ThoroughBound: 2},
		Rule:   "every interleaving with at most b preemptions of submitters, Shutdown, Start, waiters, dispatcher and workers of the real WorkerPool; distinct = distinct (outcome, observation log)",
		Assumptions: []string{
			"vsync/vatomic/channel shims model the Go primitives faithfully (selftest)",
			"runtime/debug stays disabled (deadlock-detection goroutines are not part of the property)",
		},
		NotReached: []string{"worker counts above 2", "more than one racing submitter together with restart"},
	})
}
