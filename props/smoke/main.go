package main

import (
	_ "github.com/iotaledger/hive.go/ads"
	_ "github.com/iotaledger/hive.go/app/daemon"
	_ "github.com/iotaledger/hive.go/core/memstorage"
	_ "github.com/iotaledger/hive.go/ds"
	_ "github.com/iotaledger/hive.go/ds/bytesfilter"
	_ "github.com/iotaledger/hive.go/ds/onchangemap"
	_ "github.com/iotaledger/hive.go/ds/priorityqueue"
	_ "github.com/iotaledger/hive.go/ds/queue"
	_ "github.com/iotaledger/hive.go/ds/randommap"
	_ "github.com/iotaledger/hive.go/ds/reactive"
	_ "github.com/iotaledger/hive.go/ds/ringbuffer"
	_ "github.com/iotaledger/hive.go/ds/stack"
	_ "github.com/iotaledger/hive.go/ds/timeheap"
	_ "github.com/iotaledger/hive.go/ds/walker"
	_ "github.com/iotaledger/hive.go/kvstore"
	_ "github.com/iotaledger/hive.go/kvstore/debug"
	_ "github.com/iotaledger/hive.go/kvstore/flushkv"
	_ "github.com/iotaledger/hive.go/kvstore/mapdb"
	_ "github.com/iotaledger/hive.go/runtime/event"
	_ "github.com/iotaledger/hive.go/runtime/promise"
	_ "github.com/iotaledger/hive.go/runtime/syncutils"
	_ "github.com/iotaledger/hive.go/runtime/timed"
	_ "github.com/iotaledger/hive.go/runtime/valuenotifier"
	_ "github.com/iotaledger/hive.go/runtime/workerpool"
	_ "github.com/iotaledger/hive.go/web/subscriptionmanager"
)

func main() {}
