// C18 — timed queue/executor: never early, at most once, cancel honoured.
package main

import (
	"fmt"
	"time"

	"github.com/iotaledger/hive.go/runtime/timed"

	"verif/engine/cli"
	"verif/engine/sched"
	"verif/vrt"
	"verif/vtime"
)

func at(ms int) time.Time { return vtime.Epoch.Add(time.Duration(ms) * time.Millisecond) }

// book records deliveries/executions of numbered items with their scheduled time.
type book struct {
	due       map[int]int // item -> scheduled ms
	runs      map[int]int
	ignoreDue bool // IgnorePendingTimeouts shutdown has been invoked
}

func newBook() *book { return &book{due: map[int]int{}, runs: map[int]int{}} }

func (b *book) delivered(item int) {
	b.runs[item]++
	nowMs := int(vrt.Now() / int64(time.Millisecond))
	vrt.Observe("delivered", item, nowMs)
	if b.runs[item] > 1 {
		vrt.Fail("delivered-twice", "item %d was delivered %d times", item, b.runs[item])
	}
	if nowMs < b.due[item] && !b.ignoreDue {
		vrt.Fail("delivered-early", "item %d scheduled for %dms was delivered at %dms", item, b.due[item], nowMs)
	}
}

// cancelledThenDelivered checks the log: an item whose Cancel returned before its delivery must not be delivered.
func cancelledThenDelivered() {
	cancelled := map[int]bool{}
	for _, ev := range vrt.E.Log {
		switch ev.Kind {
		case "cancel.ret":
			cancelled[ev.Args[0].(int)] = true
		case "delivered":
			if it := ev.Args[0].(int); cancelled[it] {
				vrt.Fail("cancelled-but-delivered", "item %d was delivered although its Cancel call had returned before the delivery was decided", it)
			}
		}
	}
}

func queueScenarios() []*sched.Scenario {
	var out []*sched.Scenario
	add := func(name string, env int, thor bool, run func()) {
		out = append(out, &sched.Scenario{Name: name, EnvBudget: env, ThoroughOnly: thor, Run: run})
	}
	add("queue/2adds-2pollers", 1, false, func() {
		q := timed.NewQueue[int]()
		b := newBook()
		b.due[1], b.due[2] = 10, 5
		poll := func() {
			if v := q.Poll(true); v != 0 {
				b.delivered(v)
			}
		}
		vrt.Par(func() { q.Add(1, at(10)) }, func() { q.Add(2, at(5)) }, poll, poll)
		if b.runs[1] != 1 || b.runs[2] != 1 {
			vrt.Fail("not-delivered", "items delivered %v, both must be delivered exactly once", b.runs)
		}
	})
	// scheduled times far outside the range of int64 nanoseconds since 1970 (year 3000, year 1) are ordinary times: an
	// element that is due comes first, an element from the distant past is due at once
	add("queue/far-future-and-far-past-elements", 1, false, func() {
		q := timed.NewQueue[int]()
		q.Add(1, time.Date(3000, 1, 1, 0, 0, 0, 0, time.UTC))
		q.Add(2, at(5))
		q.Add(3, time.Date(1, 1, 1, 0, 0, 0, 0, time.UTC))
		first, second := q.Poll(true), q.Poll(true)
		nowMs := int(vrt.Now() / int64(time.Millisecond))
		vrt.Observe("polled", first, second, nowMs)
		if first != 3 || second != 2 || nowMs > 1000 {
			vrt.Fail("order|far-times", "elements scheduled for year 1, +5ms and year 3000 were polled as %d, %d (virtual time now %dms); expected 3 then 2 at 5ms", first, second, nowMs)
		}
	})
	add("queue/cancel-vs-poll", 1, false, func() {
		q := timed.NewQueue[int]()
		b := newBook()
		b.due[1], b.due[2] = 5, 20
		e1 := q.Add(1, at(5))
		q.Add(2, at(20))
		vrt.Par(
			func() {
				if v := q.Poll(true); v != 0 {
					b.delivered(v)
				}
			},
			func() { e1.Cancel(); vrt.Observe("cancel.ret", 1) },
		)
		cancelledThenDelivered()
		if b.runs[1]+b.runs[2] != 1 {
			vrt.Fail("not-delivered", "Poll(true) returned without an item although item 2 was never cancelled (runs %v)", b.runs)
		}
	})
	add("queue/cancel-before-poll", 1, false, func() {
		q := timed.NewQueue[int]()
		b := newBook()
		b.due[1], b.due[2] = 5, 7
		e1 := q.Add(1, at(5))
		q.Add(2, at(7))
		e1.Cancel()
		vrt.Observe("cancel.ret", 1)
		e1.Cancel() // idempotent
		if v := q.Poll(true); v != 0 {
			b.delivered(v)
		}
		cancelledThenDelivered()
		if b.runs[2] != 1 {
			vrt.Fail("not-delivered", "item 2 was not delivered after item 1 was cancelled")
		}
		if v := q.Poll(false); v != 0 {
			vrt.Fail("delivered-twice", "Poll(false) on an empty queue returned %d", v)
		}
	})
	for _, flags := range []struct {
		name string
		f    timed.ShutdownFlag
	}{{"none", 0}, {"cancel", timed.CancelPendingElements}, {"ignore", timed.IgnorePendingTimeouts}, {"cancel+ignore", timed.CancelPendingElements | timed.IgnorePendingTimeouts}} {
		flags := flags
		add("queue/shutdown-"+flags.name+"-vs-adds-poller", 1, flags.name == "cancel+ignore", func() {
			q := timed.NewQueue[int]()
			b := newBook()
			b.due[1], b.due[2] = 5, 10
			q.Add(1, at(5))
			polled := 0
			p := vrt.Spawn(func() {
				for {
					v := q.Poll(true)
					if v == 0 {
						return
					}
					polled++
					b.delivered(v)
				}
			})
			a := vrt.Spawn(func() { q.Add(2, at(10)); vrt.Observe("add.ret", 2) })
			vrt.Observe("shutdown.call")
			b.ignoreDue = flags.f&timed.IgnorePendingTimeouts != 0
			q.Shutdown(flags.f)
			vrt.Observe("shutdown.ret")
			a.Join()
			p.Join() // the poller must terminate after a shutdown
			if flags.f&timed.CancelPendingElements == 0 {
				// without the cancel flag everything that was pending when Shutdown was called is still delivered
				if b.runs[1] != 1 {
					vrt.Fail("not-delivered", "item 1 was pending when Shutdown(%s) was called but was not delivered", flags.name)
				}
				addRet, sdCall := -1, -1
				for i, ev := range vrt.E.Log {
					if ev.Kind == "add.ret" {
						addRet = i
					}
					if ev.Kind == "shutdown.call" {
						sdCall = i
					}
				}
				if addRet < sdCall && b.runs[2] != 1 {
					vrt.Fail("not-delivered", "item 2 was added before Shutdown(%s) was called but was not delivered", flags.name)
				}
			}
			if q.Add(3, at(1)) != nil {
				vrt.Fail("add-after-shutdown", "Add after Shutdown returned an element")
			}
		})
	}
	add("queue/maxsize1", 1, false, func() {
		q := timed.NewQueue[int](timed.WithMaxSize[int](1))
		b := newBook()
		b.due[1], b.due[2] = 5, 3
		vrt.Par(func() { q.Add(1, at(5)) }, func() { q.Add(2, at(3)) })
		if q.Size() != 1 {
			vrt.Fail("maxsize", "queue bounded to 1 element holds %d", q.Size())
		}
		if v := q.Poll(true); v != 0 {
			b.delivered(v)
		}
		if v := q.Poll(false); v != 0 {
			vrt.Fail("maxsize", "a second element (%d) was delivered from a queue bounded to 1", v)
		}
	})
	// the handle of an element that the size bound dropped is dead: cancelling it (once or twice) must not touch the
	// elements that are still queued.  Which element the bound drops is not part of the statement (the code drops the
	// last heap slot, not always the furthest in the future), so the kept set is taken from a twin queue that gets the
	// same Adds and is simply drained.  The explorer picks the order of the three times and the handle to cancel.
	// Cancel is idempotent for every handle, whatever slot of the heap the element had and whatever was added since
	add("queue/cancel-twice-with-adds-in-between", 1, false, func() {
		q := timed.NewQueue[int]()
		b := newBook()
		perm := vrt.Choose(3, 0) // which of three elements is cancelled (first / middle / last heap slot)
		var hs [3]*timed.QueueElement[int]
		for i := 0; i < 3; i++ {
			b.due[i+1] = 2 + 2*i
			hs[i] = q.Add(i+1, at(2+2*i))
		}
		hs[perm].Cancel()
		b.due[4], b.due[5] = 3, 9
		q.Add(4, at(3))
		q.Add(5, at(9))
		hs[perm].Cancel() // no-op
		hs[perm].Cancel()
		want := map[int]bool{1: true, 2: true, 3: true, 4: true, 5: true}
		delete(want, perm+1)
		for range want {
			if v := q.Poll(true); v != 0 {
				b.delivered(v)
			}
		}
		for it := range want {
			if b.runs[it] != 1 {
				vrt.Fail("not-delivered", "item %d was delivered %d times; only item %d was cancelled (three times)", it, b.runs[it], perm+1)
			}
		}
		if b.runs[perm+1] != 0 {
			vrt.Fail("cancelled-but-delivered", "the cancelled item %d was delivered", perm+1)
		}
	})
	add("queue/maxsize2-dropped-handle", 1, false, func() {
		perms := [][3]int{{2, 4, 6}, {2, 6, 4}, {4, 2, 6}, {4, 6, 2}, {6, 2, 4}, {6, 4, 2}}
		times := perms[vrt.Choose(len(perms), 0)]
		b := newBook()
		build := func() (*timed.Queue[int], [3]*timed.QueueElement[int]) {
			q := timed.NewQueue[int](timed.WithMaxSize[int](2))
			var hs [3]*timed.QueueElement[int]
			for i, t := range times {
				b.due[i+1] = t
				hs[i] = q.Add(i+1, at(t))
			}
			if q.Size() != 2 {
				vrt.Fail("maxsize", "queue bounded to 2 elements holds %d", q.Size())
			}
			return q, hs
		}
		q, hs := build()
		c := vrt.Choose(4, 0) // 0: cancel nothing, i: cancel handle i (twice)
		if c > 0 {
			hs[c-1].Cancel()
			hs[c-1].Cancel()
		}
		twin, _ := build()
		want := map[int]bool{}
		for i := 0; i < 2; i++ {
			want[twin.Poll(true)] = true
		}
		delete(want, c)
		vrt.Observe("setup", fmt.Sprint(times), c, fmt.Sprint(want))
		for range want {
			if v := q.Poll(true); v != 0 {
				b.delivered(v)
			}
		}
		for it := range want {
			if b.runs[it] != 1 {
				vrt.Fail("not-delivered", "item %d (times %v; kept by the size bound and not cancelled; handle %d was cancelled) was delivered %d times", it, times, c, b.runs[it])
			}
		}
		for it, n := range b.runs {
			if !want[it] && n > 0 {
				vrt.Fail("cancelled-but-delivered", "item %d was delivered although it was dropped by the size bound or cancelled (times %v, cancelled handle %d)", it, times, c)
			}
		}
		if v := q.Poll(false); v != 0 {
			vrt.Fail("delivered-twice", "Poll(false) returned %d after every remaining element had been delivered", v)
		}
	})
	return out
}

func executorScenarios() []*sched.Scenario {
	var out []*sched.Scenario
	add := func(name string, env int, thor bool, run func()) {
		out = append(out, &sched.Scenario{Name: name, EnvBudget: env, ThoroughOnly: thor, Delay: true, Run: run})
	}
	for _, workers := range []int{1, 2} {
		workers := workers
		add(fmt.Sprintf("executor/w%d/tasks-then-shutdown", workers), 1, false, func() {
			ex := timed.NewExecutor(workers)
			b := newBook()
			b.due[1], b.due[2], b.due[3] = 5, 5, 2
			vrt.Par(
				func() { ex.ExecuteAt(func() { b.delivered(1) }, at(5)) },
				func() { ex.ExecuteAt(func() { b.delivered(2) }, at(5)); ex.ExecuteAt(func() { b.delivered(3) }, at(2)) },
			)
			ex.Shutdown() // waits for the workers; pending tasks still run
			vrt.Observe("shutdown.ret")
			for i := 1; i <= 3; i++ {
				if b.runs[i] != 1 {
					vrt.Fail("not-delivered", "task %d ran %d times before Shutdown() returned (it was pending, no cancel flag)", i, b.runs[i])
				}
			}
		})
		add(fmt.Sprintf("executor/w%d/cancel-vs-due", workers), 1, false, func() {
			ex := timed.NewExecutor(workers)
			b := newBook()
			b.due[1], b.due[2] = 5, 8
			t1 := ex.ExecuteAt(func() { b.delivered(1) }, at(5))
			ex.ExecuteAt(func() { b.delivered(2) }, at(8))
			t1.Cancel()
			vrt.Observe("cancel.ret", 1)
			ex.Shutdown()
			cancelledThenDelivered()
			if b.runs[2] != 1 {
				vrt.Fail("not-delivered", "task 2 did not run")
			}
		})
		add(fmt.Sprintf("executor/w%d/cancel-racing-due", workers), 2, workers == 2, func() {
			ex := timed.NewExecutor(workers)
			b := newBook()
			b.due[1] = 5
			t1 := ex.ExecuteAt(func() { b.delivered(1) }, at(5))
			c := vrt.Spawn(func() { t1.Cancel(); vrt.Observe("cancel.ret", 1) })
			ex.Shutdown()
			c.Join()
			cancelledThenDelivered()
		})
		add(fmt.Sprintf("executor/w%d/shutdown-cancel-pending", workers), 1, workers == 2, func() {
			ex := timed.NewExecutor(workers)
			b := newBook()
			b.due[1] = 50
			ex.ExecuteAt(func() { b.delivered(1) }, at(50))
			ex.Shutdown(timed.CancelPendingElements)
			vrt.Quiesce()
			if b.runs[1] != 0 && vrt.Now() < int64(50*time.Millisecond) {
				vrt.Fail("delivered-early", "task ran before its time after Shutdown(CancelPendingElements)")
			}
		})
	}
	return out
}

func taskExecutorScenarios() []*sched.Scenario {
	var out []*sched.Scenario
	add := func(name string, env int, thor bool, run func()) {
		out = append(out, &sched.Scenario{Name: name, EnvBudget: env, ThoroughOnly: thor, Delay: true, Run: run})
	}
	// tokens: each scheduled task has a token; started[token] records that its callback began
	logged := func(kind string) bool {
		for _, ev := range vrt.E.Log {
			if ev.Kind == kind {
				return true
			}
		}
		return false
	}
	nowMs := func() int { return int(vrt.Now() / int64(time.Millisecond)) }
	add("taskexecutor/replace-pending", 1, false, func() {
		te := timed.NewTaskExecutor[string](1)
		started := map[int]bool{}
		te.ExecuteAt("id", func() {
			if logged("replaced") {
				vrt.Fail("replaced-task-ran", "the task replaced by a second ExecuteAt for the same identifier started after that call had returned")
			}
			started[1] = true
			vrt.Observe("run", 1)
		}, at(5))
		te.ExecuteAt("id", func() { started[2] = true; vrt.Observe("run", 2) }, at(7))
		vrt.Observe("replaced")
		te.Shutdown()
		if !started[2] {
			vrt.Fail("not-delivered", "the replacing task did not run")
		}
	})
	// a bounded queue that is full with the task being replaced: the replacement takes the old task's place (postponed
	// and brought forward), it is not the one that falls off the end
	for _, later := range []bool{true, false} {
		later := later
		name := "taskexecutor/bounded-queue-replace-with-earlier"
		newAt := 3
		if later {
			name, newAt = "taskexecutor/bounded-queue-replace-with-later", 9
		}
		add(name, 1, false, func() {
			te := timed.NewTaskExecutor[string](1, timed.WithMaxQueueSize(1))
			started := map[int]bool{}
			te.ExecuteAt("id", func() {
				if logged("replaced") {
					vrt.Fail("replaced-task-ran", "the task replaced by a second ExecuteAt for the same identifier started after that call had returned (bounded queue of size 1)")
				}
				started[1] = true
				vrt.Observe("run", 1)
			}, at(5))
			te.ExecuteAt("id", func() { started[2] = true; vrt.Observe("run", 2, nowMs()) }, at(newAt))
			vrt.Observe("replaced")
			te.Shutdown()
			if !started[2] {
				vrt.Fail("not-delivered", "the replacing task did not run: the bounded queue (size 1) dropped it although the task it replaces made room")
			}
		})
	}
	// with one worker and with two (an idle second worker takes the re-scheduled task out of the queue while the
	// callback that scheduled it is still running)
	for _, workers := range []int{1, 2} {
		workers := workers
		wn := ""
		if workers > 1 {
			wn = fmt.Sprintf("/w%d", workers)
		}
		add("taskexecutor/callback-reschedules-own-id"+wn, 1, false, func() {
			te := timed.NewTaskExecutor[string](workers)
			started := map[int]bool{}
			done := make(chan struct{})
			te.ExecuteAt("id", func() {
				started[1] = true
				te.ExecuteAt("id", func() {
					started[2] = true
					vrt.Observe("run", 2)
					if nowMs() < 50 {
						vrt.Fail("delivered-early", "re-scheduled task ran at %dms, before its time", nowMs())
					}
					if logged("cancel.true") {
						vrt.Fail("cancel-true-but-ran", "Cancel(id) returned true but the pending task ran afterwards")
					}
					if logged("cancel.false") {
						vrt.Fail("cancel-false-but-pending", "Cancel(id) returned false although a task for id (re-scheduled by the previous callback) was pending: it started after Cancel had returned")
					}
				}, at(50))
				vrt.Close(done)
			}, at(5))
			vrt.Recv(done)
			vrt.Settle() // the first task (wrapper included) has finished; the re-scheduled one is pending unless the clock already reached 50
			c := te.Cancel("id")
			if c {
				vrt.Observe("cancel.true")
			} else {
				vrt.Observe("cancel.false")
			}
			te.Shutdown()
		})
		add("taskexecutor/third-schedule-leaves-one-pending"+wn, 1, false, func() {
			te := timed.NewTaskExecutor[string](workers)
			started := map[int]bool{}
			done := make(chan struct{})
			te.ExecuteAt("id", func() {
				te.ExecuteAt("id", func() {
					started[2] = true
					if logged("third.ret") {
						vrt.Fail("two-pending-for-one-id", "scheduling the identifier again did not replace its pending task: the old task started after the new ExecuteAt had returned")
					}
				}, at(50))
				vrt.Close(done)
			}, at(5))
			vrt.Recv(done)
			vrt.Settle()
			te.ExecuteAt("id", func() { started[3] = true }, at(60))
			vrt.Observe("third.ret")
			te.Shutdown()
			if !started[3] {
				vrt.Fail("not-delivered", "the last scheduled task did not run")
			}
		})
	}
	add("taskexecutor/cancel-vs-due", 2, false, func() {
		te := timed.NewTaskExecutor[string](1)
		startedStep := 0
		te.ExecuteAt("id", func() { startedStep = len(vrt.E.Log); vrt.Observe("run", 1) }, at(5))
		var c bool
		cs := vrt.Spawn(func() {
			vrt.Observe("cancel.call")
			c = te.Cancel("id")
			vrt.Observe("cancel.ret", c)
		})
		te.Shutdown()
		cs.Join()
		callIdx, retIdx := -1, -1
		for i, ev := range vrt.E.Log {
			if ev.Kind == "cancel.call" {
				callIdx = i
			}
			if ev.Kind == "cancel.ret" {
				retIdx = i
			}
		}
		if c && startedStep > retIdx {
			vrt.Fail("cancel-true-but-ran", "Cancel(id) returned true but the task started afterwards")
		}
		if !c && startedStep > retIdx && startedStep != 0 {
			vrt.Fail("cancel-false-but-pending", "Cancel(id) returned false but the task scheduled before the call started after it returned")
		}
		_ = callIdx
	})
	add("taskexecutor/reschedule-while-callback-runs", 2, true, func() {
		te := timed.NewTaskExecutor[string](2)
		gate := make(chan struct{})
		running := make(chan struct{})
		te.ExecuteAt("id", func() { vrt.Close(running); vrt.Recv(gate) }, at(5))
		vrt.Recv(running)
		te.ExecuteAt("id", func() {
			if logged("cancel.false") {
				vrt.Fail("cancel-false-but-pending", "Cancel(id) returned false although the task re-scheduled while the previous callback was running was pending: it started after Cancel had returned")
			}
			if logged("cancel.true") {
				vrt.Fail("cancel-true-but-ran", "Cancel(id) returned true but the pending task ran afterwards")
			}
		}, at(50))
		vrt.Close(gate)
		vrt.Settle()
		if te.Cancel("id") {
			vrt.Observe("cancel.true")
		} else {
			vrt.Observe("cancel.false")
		}
		te.Shutdown()
	})
	return out
}

func main() {
	scs := append(append(queueScenarios(), executorScenarios()...), taskExecutorScenarios()...)
	cli.Main(&cli.Property{
		ID: "C18", Level: "model_checking", Scenarios: scs,
		QuickBound: 2, ThoroughBound: 3, Cache: true, QuickSecs: 45, ThoroughSecs: 900,
		Rule:        "every interleaving with at most b deviations (a timer firing while a thread could still run is a deviation; at most EnvBudget of them per execution) of Add/Poll/Cancel/Shutdown callers on the real timed Queue, of ExecuteAt/Cancel/Shutdown and the worker goroutines of Executor (1-2 workers) and TaskExecutor, on a virtual clock; oracle: delivered at most once, virtual time at delivery >= scheduled time unless Shutdown(IgnorePendingTimeouts) was invoked, an item whose Cancel returned before the delivery decision is not delivered, pending items are delivered before Shutdown() returns (no cancel flag), pollers terminate after shutdown, TaskExecutor replacement/Cancel results; distinct = distinct (outcome, observation log)",
		Assumptions: []string{"vtime models time.Timer (pre-1.23 channel semantics) and time.Now faithfully; real wall-clock behaviour is replaced by the virtual clock", "delivery and cancel events are logged atomically with the deciding select / close (no scheduling point in between)"},
		NotReached:  []string{"worker counts above 2", "PanicOnModificationsAfterShutdown"},
	})
}
