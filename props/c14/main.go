// C14 — derived reactive values converge to their defining function.
package main

import (
	"fmt"
	"sort"
	"strings"

	"github.com/iotaledger/hive.go/ds"
	"github.com/iotaledger/hive.go/ds/reactive"

	"verif/engine/cli"
	"verif/engine/hist"
	"verif/engine/sched"
	"verif/vrt"
)

func sorted(s []int) []int {
	o := append([]int{}, s...)
	sort.Ints(o)
	return o
}

func union(sets ...[]int) []int {
	m := map[int]bool{}
	for _, s := range sets {
		for _, e := range s {
			m[e] = true
		}
	}
	var o []int
	for e := range m {
		o = append(o, e)
	}
	sort.Ints(o)
	return o
}

func expectSet(what string, got, want []int) {
	if fmt.Sprint(sorted(got)) != fmt.Sprint(append([]int{}, sorted(want)...)) {
		vrt.Fail("derived-set-diverged|"+what, "%s is %v at quiescence, its defining function of the current inputs gives %v", what, sorted(got), sorted(want))
	}
}

func mut(add, del []int) ds.SetMutations[int] {
	return ds.NewSetMutations[int]().WithAddedElements(ds.NewSet(add...)).WithDeletedElements(ds.NewSet(del...))
}

func scenarios() []*sched.Scenario {
	var out []*sched.Scenario
	add := func(name string, thor bool, run func()) {
		heavy := strings.HasPrefix(name, "derivedset/") || strings.HasPrefix(name, "set/")
		out = append(out, &sched.Scenario{Name: name, ThoroughOnly: thor, Run: run, Delay: heavy})
	}
	add("derivedvariable2/writers-on-both-inputs", false, func() {
		a, b := reactive.NewVariable[int](), reactive.NewVariable[int]()
		d := reactive.NewDerivedVariable2(func(_ int, x, y int) int { return x*10 + y }, a, b)
		vrt.Par(func() { a.Set(1); a.Set(3) }, func() { b.Set(2) }, func() { b.Set(5) })
		vrt.Quiesce()
		vrt.Observe("final", a.Get(), b.Get(), d.Get())
		if d.Get() != a.Get()*10+b.Get() {
			vrt.Fail("derived-variable-diverged", "derived value %d != compute(%d,%d) = %d", d.Get(), a.Get(), b.Get(), a.Get()*10+b.Get())
		}
	})
	add("derivedvariable3/three-writers", false, func() {
		a, b, c := reactive.NewVariable[int](), reactive.NewVariable[int](), reactive.NewVariable[int]()
		d := reactive.NewDerivedVariable3(func(_ int, x, y, z int) int { return x*100 + y*10 + z }, a, b, c)
		vrt.Par(func() { a.Set(1) }, func() { b.Set(2) }, func() { c.Set(3) })
		vrt.Quiesce()
		if want := a.Get()*100 + b.Get()*10 + c.Get(); d.Get() != want {
			vrt.Fail("derived-variable-diverged", "derived value %d != compute(...) = %d", d.Get(), want)
		}
	})
	add("variable/inheritfrom", false, func() {
		src, dst := reactive.NewVariable[int](), reactive.NewVariable[int]()
		vrt.Par(func() { src.Set(1); src.Set(2) }, func() { dst.InheritFrom(src) }, func() { src.Set(3) })
		vrt.Quiesce()
		vrt.Observe("final", src.Get(), dst.Get())
		if dst.Get() != src.Get() {
			vrt.Fail("inherit-diverged", "InheritFrom: destination %d, source %d", dst.Get(), src.Get())
		}
	})
	add("derivedset/two-sources-add-delete-replace", false, func() {
		s1, s2 := reactive.NewSet[int](), reactive.NewSet[int]()
		s1.Add(1)
		d := reactive.NewDerivedSet[int]()
		d.InheritFrom(s1, s2)
		vrt.Par(
			func() { s1.Add(2); s1.Delete(1) },
			func() { s2.Add(1); s2.Replace(ds.NewSet(1, 3)) },
			func() { s2.Add(2) },
		)
		vrt.Quiesce()
		vrt.Observe("final", fmt.Sprint(sorted(s1.ToSlice())), fmt.Sprint(sorted(s2.ToSlice())), fmt.Sprint(sorted(d.ToSlice())))
		expectSet("DerivedSet", d.ToSlice(), union(s1.ToSlice(), s2.ToSlice()))
	})
	add("derivedset/unsubscribe-source-vs-writes", false, func() {
		s1, s2 := reactive.NewSet[int](), reactive.NewSet[int]()
		s1.Add(1)
		s2.Add(1)
		d := reactive.NewDerivedSet[int]()
		u1 := d.InheritFrom(s1)
		d.InheritFrom(s2)
		vrt.Par(
			func() { s1.Add(2) },
			func() { u1() },
			func() { s2.Delete(1); s2.Add(3) },
		)
		vrt.Quiesce()
		vrt.Observe("final", fmt.Sprint(sorted(s1.ToSlice())), fmt.Sprint(sorted(s2.ToSlice())), fmt.Sprint(sorted(d.ToSlice())))
		expectSet("DerivedSet after unsubscribing source 1", d.ToSlice(), s2.ToSlice())
	})
	add("derivedset/inheritfrom-vs-writes", false, func() {
		s1 := reactive.NewSet[int]()
		s1.Add(1)
		s1.Add(2)
		d := reactive.NewDerivedSet[int]()
		sub := reactive.NewSet[int]()
		vrt.Par(
			func() { d.InheritFrom(s1) },
			func() { s1.Delete(1); s1.Add(3) },
			func() { _ = sub }, // keeps three parties in the schedule tree without adding work
		)
		r := s1.SubtractReactive(sub)
		vrt.Quiesce()
		vrt.Observe("final", fmt.Sprint(sorted(s1.ToSlice())), fmt.Sprint(sorted(d.ToSlice())))
		expectSet("DerivedSet subscribed while its source was written", d.ToSlice(), s1.ToSlice())
		expectSet("SubtractReactive", r.ToSlice(), s1.ToSlice())
	})
	add("set/subtractreactive-subscribes-during-writes", false, func() {
		s1, s2 := reactive.NewSet[int](), reactive.NewSet[int]()
		s1.Add(1)
		s1.Add(2)
		var r reactive.ReadableSet[int]
		vrt.Par(
			func() { r = s1.SubtractReactive(s2) },
			func() { s1.Delete(1); s1.Add(3) },
		)
		vrt.Quiesce()
		expectSet("SubtractReactive created while its source was written", r.ToSlice(), s1.ToSlice())
	})
	add("set/subtractreactive", false, func() {
		s1, s2 := reactive.NewSet[int](), reactive.NewSet[int]()
		s1.Add(1)
		s1.Add(2)
		r := s1.SubtractReactive(s2)
		vrt.Par(
			func() { s2.Add(1); s2.Add(3) },
			func() { s1.Add(3); s1.Delete(2) },
			func() { s2.Delete(1) },
		)
		vrt.Quiesce()
		var want []int
		for _, e := range s1.ToSlice() {
			if !s2.Has(e) {
				want = append(want, e)
			}
		}
		vrt.Observe("final", fmt.Sprint(sorted(s1.ToSlice())), fmt.Sprint(sorted(s2.ToSlice())), fmt.Sprint(sorted(r.ToSlice())))
		expectSet("SubtractReactive", r.ToSlice(), want)
	})
	for _, zeroTrue := range []bool{false, true} {
		zeroTrue := zeroTrue
		add(fmt.Sprintf("counter/monitor-two-inputs/condition-true-for-zero=%v", zeroTrue), false, func() {
			cond := func(v int) bool { return v != 0 }
			if zeroTrue {
				cond = func(v int) bool { return v < 10 }
			}
			c := reactive.NewCounter[int](cond)
			a, b := reactive.NewVariable[int](), reactive.NewVariable[int]()
			b.Set(20)
			c.Monitor(a)
			vrt.Par(
				func() { a.Set(15); a.Set(5) },
				func() { c.Monitor(b) },
				func() { b.Set(0); b.Set(30) },
			)
			vrt.Quiesce()
			want := 0
			for _, v := range []int{a.Get(), b.Get()} {
				if cond(v) {
					want++
				}
			}
			vrt.Observe("final", a.Get(), b.Get(), c.Get())
			if c.Get() != want {
				vrt.Fail("counter-diverged", "counter is %d, %d of the monitored inputs (%d, %d) satisfy the condition", c.Get(), want, a.Get(), b.Get())
			}
		})
	}
	add("sortedset/add-weightchange", false, func() {
		w := map[int]reactive.Variable[int]{1: reactive.NewVariable[int](), 2: reactive.NewVariable[int](), 3: reactive.NewVariable[int]()}
		w[1].Set(10)
		w[2].Set(20)
		w[3].Set(30)
		s := reactive.NewSortedSet(func(e int) reactive.Variable[int] { return w[e] })
		s.Add(1)
		vrt.Par(
			func() { s.Add(2); s.Add(3) },
			func() { w[1].Set(25) },
			func() { w[3].Set(5) },
		)
		vrt.Quiesce()
		checkSorted(s, w)
	})
	add("sortedset/delete-vs-weightchange", false, func() {
		w := map[int]reactive.Variable[int]{1: reactive.NewVariable[int](), 2: reactive.NewVariable[int]()}
		w[1].Set(10)
		w[2].Set(20)
		s := reactive.NewSortedSet(func(e int) reactive.Variable[int] { return w[e] })
		s.Add(1)
		s.Add(2)
		vrt.Par(
			func() { s.Delete(1) },
			func() { w[1].Set(30) },
		)
		vrt.Quiesce()
		checkSorted(s, w)
	})
	add("sortedset/removed-element-weight-change-and-readd", false, func() {
		w := map[int]reactive.Variable[int]{1: reactive.NewVariable[int](), 2: reactive.NewVariable[int](), 3: reactive.NewVariable[int]()}
		w[1].Set(10)
		w[2].Set(20)
		w[3].Set(30)
		s := reactive.NewSortedSet(func(e int) reactive.Variable[int] { return w[e] })
		s.Add(1)
		s.Add(2)
		s.Delete(1)
		vrt.Par(
			func() { w[1].Set(50) }, // weight of an element that is no longer a member
			func() { s.Add(3); w[2].Set(40) },
			func() { w[3].Set(5) },
		)
		s.Add(1) // re-added with its current weight
		vrt.Quiesce()
		checkSorted(s, w)
	})
	add("waitgroup/add-done-readd", false, func() {
		wg := reactive.NewWaitGroup(1)
		vrt.Par(
			func() { wg.Add(1, 2) },
			func() { wg.Done(1) },
			func() { wg.Done(2) },
		)
		vrt.Quiesce()
		pending := sorted(wg.PendingElements().ToSlice())
		vrt.Observe("final", fmt.Sprint(pending), wg.WasTriggered())
		// then finish everything that is still pending: the group must trigger exactly now (or have triggered when it was empty before)
		wasTriggered := wg.WasTriggered()
		if len(pending) == 0 && !wasTriggered {
			vrt.Fail("waitgroup-lost-trigger", "no element is pending and at least one was marked done, but the WaitGroup has not triggered")
		}
		wg.Done(pending...)
		if !wg.WasTriggered() {
			vrt.Fail("waitgroup-lost-trigger", "all elements were marked done (%v last) but the WaitGroup has not triggered", pending)
		}
	})
	add("waitgroup/never-empty-never-triggers", false, func() {
		wg := reactive.NewWaitGroup(1, 2)
		vrt.Par(
			func() { wg.Done(1) },
			func() { wg.Add(3) },
			func() { wg.Done(3); wg.Done(3) },
		)
		vrt.Quiesce()
		// element 2 is pending throughout
		if wg.WasTriggered() {
			vrt.Fail("waitgroup-spurious-trigger", "the WaitGroup triggered although element 2 was pending the whole time (pending now %v)", wg.PendingElements().ToSlice())
		}
		w := vrt.Spawn(func() { wg.Wait() })
		wg.Done(2)
		if len(wg.PendingElements().ToSlice()) == 0 {
			w.Join() // Wait must return once everything is done
		}
	})
	add("evictionstate/events-vs-evict", false, func() {
		es := reactive.NewEvictionState[int]()
		fired := map[int]int{}
		for _, slot := range []int{1, 2, 4} {
			slot := slot
			es.EvictionEvent(slot).OnTrigger(func() { fired[slot]++ })
		}
		vrt.Par(
			func() { es.Evict(1) },
			func() { es.Evict(3) },
			func() {
				es.EvictionEvent(2).OnTrigger(func() { fired[20]++ })
				es.EvictionEvent(5).OnTrigger(func() { fired[50]++ })
			},
		)
		vrt.Quiesce()
		last := es.LastEvictedSlot()
		vrt.Observe("final", last, fmt.Sprint(fired))
		if last != 3 {
			vrt.Fail("eviction-last-slot", "LastEvictedSlot is %d after Evict(1) || Evict(3)", last)
		}
		for slot, want := range map[int]int{1: 1, 2: 1, 20: 1, 4: 0, 50: 0} {
			if fired[slot] != want {
				vrt.Fail("eviction-events", "eviction event handler for slot key %d ran %d times, expected %d (last evicted slot %d)", slot, fired[slot], want, last)
			}
		}
	})
	return out
}

func checkSorted(s reactive.SortedSet[int], w map[int]reactive.Variable[int]) {
	members := sorted(s.ToSlice())
	asc := s.Ascending()
	desc := s.Descending()
	vrt.Observe("final", fmt.Sprint(members), fmt.Sprint(asc), fmt.Sprint(desc), s.HeaviestElement().Get(), s.LightestElement().Get())
	if fmt.Sprint(sorted(asc)) != fmt.Sprint(append([]int{}, members...)) {
		vrt.Fail("sortedset-members", "Ascending() lists %v, the set contains %v", asc, members)
		return
	}
	for i := 1; i < len(asc); i++ {
		if w[asc[i-1]].Get() > w[asc[i]].Get() {
			vrt.Fail("sortedset-order", "Ascending() = %v is not sorted by the current weights %v", asc, weights(asc, w))
		}
	}
	for i := range asc {
		if desc[len(desc)-1-i] != asc[i] {
			vrt.Fail("sortedset-order", "Descending() %v is not the reverse of Ascending() %v", desc, asc)
		}
	}
	if len(asc) > 0 {
		if h := s.HeaviestElement().Get(); w[h].Get() != w[asc[len(asc)-1]].Get() || !contains(asc, h) {
			vrt.Fail("sortedset-heaviest", "HeaviestElement is %d, order by weight is %v (weights %v)", h, asc, weights(asc, w))
		}
		if l := s.LightestElement().Get(); w[l].Get() != w[asc[0]].Get() || !contains(asc, l) {
			vrt.Fail("sortedset-lightest", "LightestElement is %d, order by weight is %v (weights %v)", l, asc, weights(asc, w))
		}
	} else if s.HeaviestElement().Get() != 0 || s.LightestElement().Get() != 0 {
		vrt.Fail("sortedset-heaviest", "empty sorted set reports heaviest %d lightest %d", s.HeaviestElement().Get(), s.LightestElement().Get())
	}
}

func contains(s []int, e int) bool {
	for _, x := range s {
		if x == e {
			return true
		}
	}
	return false
}

func weights(es []int, w map[int]reactive.Variable[int]) []int {
	var o []int
	for _, e := range es {
		o = append(o, w[e].Get())
	}
	return o
}

func main() {
	part := hist.Part("sequential-histories", func(c *cli.Ctx) []*hist.System {
		return []*hist.System{evictionSystem(), sortedSetSystem(), derivedSetSystem(), counterWaitGroupSystem()}
	})
	cli.Main(&cli.Property{
		ID: "C14", Level: "model_checking", Scenarios: scenarios(), Parts: []*cli.Part{part},
		QuickBound: 2, ThoroughBound: 3, Cache: true, QuickSecs: 50, ThoroughSecs: 900,
		RaceHB: &cli.RaceHB{QuickBound: 1, ThoroughBound: 2},
		Rule:        "H: every sequential history (breadth-first to the fixpoint of the model state space, plus every history unmerged to a small depth) of input writes and structural changes on an EvictionState (7 slots, jumps included), a SortedSet (3 elements x 3 weights, Add/Delete/weight change also of removed elements), a DerivedSet over two sources with SubtractReactive (Add/Delete/Replace/InheritFrom/unsubscribe) and a Counter with a WaitGroup, compared with the defining function after every step. S: every interleaving with at most b preemptions (delay bounding for the reactive-set scenarios, whose executions have thousands of steps) of writers on different inputs and structural changes (add/remove source or element, subscribe/unsubscribe) on real derived reactive values; at quiescence (all writers returned, nothing enabled) the derived value is compared with its defining function of the inputs' current values; deadlock = violation; distinct = distinct (outcome, observation log)",
		Assumptions: []string{"convergence is judged at quiescence only (transient staleness while writers run is allowed by the statement)"},
		NotReached:  []string{"DerivedVariable4, Clock, LogUpdates helpers", "more than 3 concurrent writers"},
	})
}
