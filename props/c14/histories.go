package main

import (
	"fmt"
	"sort"
	"strings"

	"github.com/iotaledger/hive.go/ds"
	"github.com/iotaledger/hive.go/ds/reactive"

	"verif/engine/hist"
)

// Sequential histories (engine H): the statement quantifies over all histories of input changes as well as over
// interleavings; the systems below enumerate every history over a small alphabet and compare the derived value with
// its defining function after every step.

type simple struct {
	names   []string
	apply   func(i int, check bool) string
	key     func() string
	enabled func(i int) bool
}

func (s *simple) Enabled(i int) bool {
	if s.enabled == nil {
		return true
	}
	return s.enabled(i)
}
func (s *simple) Apply(i int) string { return s.apply(i, true) }
func (s *simple) Replay(i int)       { _ = s.apply(i, false) }
func (s *simple) Key() string        { return s.key() }

func evictionSystem() *hist.System {
	const slots = 7
	var names []string
	for s := 1; s <= slots; s++ {
		names = append(names, fmt.Sprintf("EvictionEvent(%d).OnTrigger", s))
	}
	for s := 1; s <= slots; s++ {
		names = append(names, fmt.Sprintf("Evict(%d)", s))
	}
	return &hist.System{Name: "evictionstate", Alphabet: names, Merge: true, MaxDepth: 12, New: func() hist.Instance {
		es := reactive.NewEvictionState[int]()
		registered := map[int]int{} // slot -> handlers registered
		fired := map[int]int{}      // slot -> handler invocations
		last := 0
		return &simple{
			key: func() string { return fmt.Sprint(last, sortedKeys(registered)) },
			apply: func(i int, check bool) string {
				cls := strings.SplitN(names[i], "(", 2)[0]
				if i < slots {
					slot := i + 1
					registered[slot]++
					es.EvictionEvent(slot).OnTrigger(func() { fired[slot]++ })
				} else {
					slot := i - slots + 1
					es.Evict(slot)
					if slot > last {
						last = slot
					}
				}
				if !check {
					return ""
				}
				if es.LastEvictedSlot() != last {
					return fmt.Sprintf("%s|last-evicted-slot: LastEvictedSlot is %d, the highest evicted slot is %d", cls, es.LastEvictedSlot(), last)
				}
				for slot, n := range registered {
					want := 0
					if slot <= last {
						want = n
					}
					if fired[slot] != want {
						return fmt.Sprintf("%s|eviction-events: %d handler(s) of slot %d ran %d times in total, expected %d (last evicted slot %d)", cls, n, slot, fired[slot], want, last)
					}
				}
				return ""
			},
		}
	}}
}

func sortedKeys(m map[int]int) []int {
	var k []int
	for e := range m {
		k = append(k, e)
	}
	sort.Ints(k)
	return k
}

func sortedSetSystem() *hist.System {
	elems, weights := []int{1, 2, 3}, []int{-1, 0, 2} // non-positive weights included: the zero value is not special
	var names []string
	for _, e := range elems {
		names = append(names, fmt.Sprintf("Add(%d)", e))
	}
	for _, e := range elems {
		names = append(names, fmt.Sprintf("Delete(%d)", e))
	}
	for _, e := range elems {
		for _, w := range weights {
			names = append(names, fmt.Sprintf("weight(%d).Set(%d)", e, w))
		}
	}
	return &hist.System{Name: "sortedset", Alphabet: names, Merge: true, MaxDepth: 12, New: func() hist.Instance {
		w := map[int]reactive.Variable[int]{}
		for _, e := range elems {
			w[e] = reactive.NewVariable[int]()
			w[e].Set(e - 2) // distinct initial weights -1, 0, 1
		}
		s := reactive.NewSortedSet(func(e int) reactive.Variable[int] { return w[e] })
		member := map[int]bool{}
		return &simple{
			key: func() string {
				return fmt.Sprint(member[1], member[2], member[3], w[1].Get(), w[2].Get(), w[3].Get(), s.Ascending())
			},
			apply: func(i int, check bool) string {
				cls := strings.SplitN(names[i], "(", 2)[0]
				switch {
				case i < 3:
					member[elems[i]] = true
					s.Add(elems[i])
				case i < 6:
					delete(member, elems[i-3])
					s.Delete(elems[i-3])
				default:
					j := i - 6
					w[elems[j/3]].Set(weights[j%3])
				}
				if !check {
					return ""
				}
				asc, desc := s.Ascending(), s.Descending()
				var want []int
				for e := range member {
					want = append(want, e)
				}
				sort.Ints(want)
				got := append([]int{}, asc...)
				sort.Ints(got)
				if fmt.Sprint(got) != fmt.Sprint(want) {
					return fmt.Sprintf("%s|sortedset-members: Ascending() lists %v, the members are %v", cls, asc, want)
				}
				for k := 1; k < len(asc); k++ {
					if w[asc[k-1]].Get() > w[asc[k]].Get() {
						return fmt.Sprintf("%s|sortedset-order: Ascending() = %v is not sorted by the current weights (%d,%d,%d)", cls, asc, w[1].Get(), w[2].Get(), w[3].Get())
					}
				}
				for k := range asc {
					if desc[len(desc)-1-k] != asc[k] {
						return fmt.Sprintf("%s|sortedset-descending: Descending() = %v is not the reverse of Ascending() = %v", cls, desc, asc)
					}
				}
				if len(asc) > 0 {
					if h, l := s.HeaviestElement().Get(), s.LightestElement().Get(); w[h].Get() != w[asc[len(asc)-1]].Get() || w[l].Get() != w[asc[0]].Get() || !member[h] || !member[l] {
						return fmt.Sprintf("%s|sortedset-ends: HeaviestElement %d / LightestElement %d, Ascending() = %v, weights (%d,%d,%d)", cls, h, l, asc, w[1].Get(), w[2].Get(), w[3].Get())
					}
				}
				return ""
			},
		}
	}}
}

func derivedSetSystem() *hist.System {
	type op struct {
		kind string
		src  int
		arg  []int
	}
	var ops []op
	var names []string
	for src := 0; src < 2; src++ {
		for e := 1; e <= 2; e++ {
			ops = append(ops, op{"add", src, []int{e}}, op{"delete", src, []int{e}})
			names = append(names, fmt.Sprintf("s%d.Add(%d)", src, e), fmt.Sprintf("s%d.Delete(%d)", src, e))
		}
		for _, r := range [][]int{{}, {1}, {2}, {1, 2}} {
			ops = append(ops, op{"replace", src, r})
			names = append(names, fmt.Sprintf("s%d.Replace(%v)", src, r))
		}
		ops = append(ops, op{"inherit", src, nil}, op{"unsubscribe", src, nil})
		names = append(names, fmt.Sprintf("InheritFrom(s%d)", src), fmt.Sprintf("unsubscribe(s%d)", src))
		// one batch that names the same element as added and as deleted (the set adds first, then deletes)
		ops = append(ops, op{"apply+-", src, []int{1}})
		names = append(names, fmt.Sprintf("s%d.Apply(+1,-1)", src))
	}
	return &hist.System{Name: "derivedset+subtract", Alphabet: names, Merge: true, MaxDepth: 10, New: func() hist.Instance {
		src := []reactive.Set[int]{reactive.NewSet[int](), reactive.NewSet[int]()}
		d := reactive.NewDerivedSet[int]()
		sub := src[0].SubtractReactive(src[1])
		unsub := []func(){nil, nil}
		return &simple{
			key: func() string {
				return fmt.Sprint(sorted(src[0].ToSlice()), sorted(src[1].ToSlice()), unsub[0] != nil, unsub[1] != nil)
			},
			enabled: func(i int) bool {
				switch ops[i].kind {
				case "inherit":
					return unsub[ops[i].src] == nil
				case "unsubscribe":
					return unsub[ops[i].src] != nil
				}
				return true
			},
			apply: func(i int, check bool) string {
				o := ops[i]
				cls := o.kind
				switch o.kind {
				case "add":
					src[o.src].Add(o.arg[0])
				case "delete":
					src[o.src].Delete(o.arg[0])
				case "replace":
					src[o.src].Replace(ds.NewSet(o.arg...))
				case "apply+-":
					src[o.src].Apply(ds.NewSetMutations[int]().WithAddedElements(ds.NewSet(o.arg...)).WithDeletedElements(ds.NewSet(o.arg...)))
				case "inherit":
					unsub[o.src] = d.InheritFrom(src[o.src])
				case "unsubscribe":
					unsub[o.src]()
					unsub[o.src] = nil
				}
				if !check {
					return ""
				}
				var want []int
				for k := range src {
					if unsub[k] != nil {
						want = union(want, src[k].ToSlice())
					}
				}
				if fmt.Sprint(sorted(d.ToSlice())) != fmt.Sprint(append([]int{}, sorted(want)...)) {
					return fmt.Sprintf("%s|derived-set-diverged: DerivedSet is %v, the union of its current sources is %v (s0=%v subscribed=%v, s1=%v subscribed=%v)", cls, sorted(d.ToSlice()), sorted(want), sorted(src[0].ToSlice()), unsub[0] != nil, sorted(src[1].ToSlice()), unsub[1] != nil)
				}
				var diff []int
				for _, e := range src[0].ToSlice() {
					if !src[1].Has(e) {
						diff = append(diff, e)
					}
				}
				if fmt.Sprint(sorted(sub.ToSlice())) != fmt.Sprint(append([]int{}, sorted(diff)...)) {
					return fmt.Sprintf("%s|subtract-diverged: s0.SubtractReactive(s1) is %v, s0 minus s1 is %v", cls, sorted(sub.ToSlice()), sorted(diff))
				}
				return ""
			},
		}
	}}
}

func counterWaitGroupSystem() *hist.System {
	vals := []int{0, 5, 15}
	var names []string
	for v := 0; v < 2; v++ {
		for _, x := range vals {
			names = append(names, fmt.Sprintf("v%d.Set(%d)", v, x))
		}
	}
	names = append(names, "Monitor(v0)", "Monitor(v1)", "unmonitor(v0)", "unmonitor(v1)")
	for e := 1; e <= 2; e++ {
		names = append(names, fmt.Sprintf("wg.Add(%d)", e), fmt.Sprintf("wg.Done(%d)", e))
	}
	return &hist.System{Name: "counter+waitgroup", Alphabet: names, Merge: true, MaxDepth: 10, New: func() hist.Instance {
		cond := func(v int) bool { return v != 0 && v < 10 }
		c := reactive.NewCounter[int](cond)
		v := []reactive.Variable[int]{reactive.NewVariable[int](), reactive.NewVariable[int]()}
		unmon := []func(){nil, nil}
		wg := reactive.NewWaitGroup[int]()
		pending := map[int]bool{}
		everPending, shouldHaveTriggered := false, false
		return &simple{
			key: func() string {
				return fmt.Sprint(v[0].Get(), v[1].Get(), unmon[0] != nil, unmon[1] != nil, pending[1], pending[2], everPending, shouldHaveTriggered)
			},
			enabled: func(i int) bool {
				switch {
				case i == 6 || i == 7:
					return unmon[i-6] == nil
				case i == 8 || i == 9:
					// whether un-monitoring an input must take its contribution out of the counter is not stated
					// (the unsubscribe function only stops listening); not exercised
					return false
				case i >= 10 && (i-10)%2 == 0:
					return !shouldHaveTriggered // adding to a group that has already triggered is outside the statement
				}
				return true
			},
			apply: func(i int, check bool) string {
				cls := strings.SplitN(names[i], "(", 2)[0]
				switch {
				case i < 6:
					v[i/3].Set(vals[i%3])
				case i < 8:
					unmon[i-6] = c.Monitor(v[i-6])
				case i < 10:
					unmon[i-8]()
					unmon[i-8] = nil
				default:
					e := (i-10)/2 + 1
					if (i-10)%2 == 0 {
						wg.Add(e)
						pending[e], everPending = true, true
					} else {
						wg.Done(e)
						if pending[e] {
							delete(pending, e)
							if len(pending) == 0 {
								shouldHaveTriggered = true
							}
						}
					}
				}
				if !check {
					return ""
				}
				want := 0
				for k := range v {
					if unmon[k] != nil && cond(v[k].Get()) {
						want++
					}
				}
				if c.Get() != want {
					return fmt.Sprintf("%s|counter-diverged: counter is %d, %d of its monitored inputs satisfy the condition (v0=%d monitored=%v, v1=%d monitored=%v)", cls, c.Get(), want, v[0].Get(), unmon[0] != nil, v[1].Get(), unmon[1] != nil)
				}
				if wg.WasTriggered() != shouldHaveTriggered {
					return fmt.Sprintf("%s|waitgroup-trigger: WasTriggered=%v, but the last pending element was marked done: %v (pending now %v)", cls, wg.WasTriggered(), shouldHaveTriggered, sorted(wg.PendingElements().ToSlice()))
				}
				return ""
			},
		}
	}}
}
