// C04 — KVStore views and wrappers obey one ordered-map contract.
package main

import (
	"bytes"
	"errors"
	"fmt"
	"sort"
	"strings"

	"github.com/iotaledger/hive.go/kvstore"
	"github.com/iotaledger/hive.go/kvstore/debug"
	"github.com/iotaledger/hive.go/kvstore/flushkv"
	"github.com/iotaledger/hive.go/kvstore/mapdb"

	"verif/engine/cli"
	"verif/engine/hist"
)

var keys = [][]byte{{}, {0x00}, {0x00, 0xff}, {0xff}}

func hx(b []byte) string {
	if len(b) == 0 {
		return "e"
	}
	return fmt.Sprintf("%x", b)
}

// viewSpec: how a view is derived: parent index (-1 = wrapped base store), extended?, realm bytes
type viewSpec struct {
	parent   int
	extended bool
	realm    []byte
}

type tree struct {
	name  string
	views []viewSpec
}

var trees = []tree{
	{"root+00+00ff", []viewSpec{{-1, false, nil}, {0, false, []byte{0x00}}, {0, false, []byte{0x00, 0xff}}}},
	{"root+00+ext(ff)", []viewSpec{{-1, false, nil}, {0, false, []byte{0x00}}, {1, true, []byte{0xff}}}},
	{"root+ext(ff)+realm(e)", []viewSpec{{-1, false, nil}, {0, true, []byte{0xff}}, {0, false, []byte{}}}},
	{"r00+replace(ff)+ext(00)", []viewSpec{{-1, false, []byte{0x00}}, {0, false, []byte{0xff}}, {0, true, []byte{0x00}}}},
	{"r00ff+ext(e)+ext(00)ext(ff)", []viewSpec{{-1, false, []byte{0x00, 0xff}}, {0, true, []byte{}}, {0, true, []byte{0x00}}}},
	{"root+00+0000", []viewSpec{{-1, false, nil}, {0, false, []byte{0x00}}, {1, true, []byte{0x00}}}},
}

var wrappers = []string{"none", "flushkv", "debug", "flushkv+debug", "debug+flushkv"}

func wrap(base kvstore.KVStore, w string) kvstore.KVStore {
	switch w {
	case "flushkv":
		return flushkv.New(base)
	case "debug":
		return debug.New(base, func(debug.Command, ...[]byte) {})
	case "flushkv+debug":
		return flushkv.New(debug.New(base, func(debug.Command, ...[]byte) {}))
	case "debug+flushkv":
		return debug.New(flushkv.New(base), func(debug.Command, ...[]byte) {})
	}
	return base
}

type opKind int

const (
	oSet opKind = iota
	oDelete
	oDeletePrefix
	oClear
	oBatched
	oBSet
	oBDelete
	oCommit
	oCancel
	oClose
	oFlush
)

type op struct {
	k    opKind
	v    int // view
	key  []byte
	val  []byte
	name string
}

func alphabet(nviews int, focus string) []op {
	var ops []op
	for v := 0; v < nviews; v++ {
		add := func(k opKind, key, val []byte, n string) {
			ops = append(ops, op{k: k, v: v, key: key, val: val, name: fmt.Sprintf("v%d.%s", v, n)})
		}
		if focus == "kv" {
			for _, k := range keys {
				add(oSet, k, []byte("a"), "Set("+hx(k)+",a)")
				add(oSet, k, []byte{}, "Set("+hx(k)+",empty)")
				add(oDelete, k, nil, "Delete("+hx(k)+")")
				add(oDeletePrefix, k, nil, "DeletePrefix("+hx(k)+")")
			}
			add(oClear, nil, nil, "Clear")
			add(oClose, nil, nil, "Close")
		} else { // batch
			for _, k := range keys[1:3] {
				add(oSet, k, []byte("a"), "Set("+hx(k)+",a)")
				add(oDelete, k, nil, "Delete("+hx(k)+")")
			}
			add(oBatched, nil, nil, "Batched")
			for _, k := range keys {
				add(oBSet, k, []byte("b"), "b.Set("+hx(k)+",b)")
				add(oBDelete, k, nil, "b.Delete("+hx(k)+")")
			}
			for _, k := range keys[1:3] {
				add(oBSet, k, []byte{}, "b.Set("+hx(k)+",empty)") // an empty value is a value, not a deletion
			}
			add(oCommit, nil, nil, "b.Commit")
			add(oCancel, nil, nil, "b.Cancel")
			add(oClose, nil, nil, "Close")
			add(oFlush, nil, nil, "Flush")
		}
	}
	return ops
}

type batchModel struct {
	open bool
	ops  map[string]*[]byte // key (view-relative) -> value or nil for delete
	hist map[string]string  // key -> kinds of the operations the open batch has seen for it ("s"/"d"), part of the state key:
	// a batch that saw Set then Delete for a key is not the same real state as one that only saw Delete
	real kvstore.BatchedMutations
	bufs [][]byte // caller buffers handed to the batch (scribbled after Commit)
}

type inst struct {
	ops     []op
	base    kvstore.KVStore // unwrapped root mapdb (for whole-content comparison)
	views   []kvstore.KVStore
	realms  [][]byte
	model   map[string][]byte
	closed  bool
	batches []batchModel
	check   bool
}

func newInst(ops []op, t tree, w string) *inst {
	in := &inst{ops: ops, model: map[string][]byte{}, check: true}
	in.base = mapdb.NewMapDB()
	wrapped := wrap(in.base, w)
	for _, vs := range t.views {
		var parent kvstore.KVStore
		var prealm []byte
		if vs.parent < 0 {
			parent = wrapped
		} else {
			parent, prealm = in.views[vs.parent], in.realms[vs.parent]
		}
		var v kvstore.KVStore
		var err error
		var realm []byte
		switch {
		case vs.parent < 0 && vs.realm == nil:
			v = parent
		case vs.extended:
			arg := append([]byte{}, vs.realm...)
			v, err = parent.WithExtendedRealm(arg)
			realm = append(append([]byte{}, prealm...), vs.realm...)
		default:
			arg := append([]byte{}, vs.realm...)
			v, err = parent.WithRealm(arg)
			realm = append([]byte{}, vs.realm...)
		}
		if err != nil {
			panic(err)
		}
		in.views = append(in.views, v)
		in.realms = append(in.realms, realm)
		in.batches = append(in.batches, batchModel{})
	}
	return in
}

func (in *inst) Enabled(i int) bool {
	o := in.ops[i]
	switch o.k {
	case oBatched:
		return !in.batches[o.v].open
	case oBSet, oBDelete, oCommit, oCancel:
		return in.batches[o.v].open
	}
	return true
}

func scribble(b []byte) {
	for i := range b {
		b[i] ^= 0x5a
	}
}

func full(realm, key []byte) string { return string(realm) + string(key) }

func errName(err error) string {
	switch {
	case err == nil:
		return "nil"
	case errors.Is(err, kvstore.ErrStoreClosed):
		return "ErrStoreClosed"
	case errors.Is(err, kvstore.ErrKeyNotFound):
		return "ErrKeyNotFound"
	}
	return "other:" + err.Error()
}

func (in *inst) Replay(i int) {
	in.check = false
	defer func() { in.check = true }()
	_ = in.Apply(i)
}

func (in *inst) Apply(i int) string {
	o := in.ops[i]
	v, realm := in.views[o.v], in.realms[o.v]
	cls := strings.SplitN(strings.SplitN(o.name, ".", 2)[1], "(", 2)[0]
	want := "nil"
	if in.closed {
		want = "ErrStoreClosed"
	}
	var err error
	switch o.k {
	case oSet:
		kb, vb := append([]byte{}, o.key...), append([]byte{}, o.val...)
		err = v.Set(kb, vb)
		scribble(kb)
		scribble(vb)
		if !in.closed {
			in.model[full(realm, o.key)] = append([]byte{}, o.val...)
		}
	case oDelete:
		kb := append([]byte{}, o.key...)
		err = v.Delete(kb)
		scribble(kb)
		if !in.closed {
			delete(in.model, full(realm, o.key))
		}
	case oDeletePrefix:
		kb := append([]byte{}, o.key...)
		err = v.DeletePrefix(kb)
		scribble(kb)
		if !in.closed {
			for k := range in.model {
				if strings.HasPrefix(k, full(realm, o.key)) {
					delete(in.model, k)
				}
			}
		}
	case oClear:
		err = v.Clear()
		if !in.closed {
			for k := range in.model {
				if strings.HasPrefix(k, string(realm)) {
					delete(in.model, k)
				}
			}
		}
	case oFlush:
		err = v.Flush()
	case oClose:
		err = v.Close()
		want = "nil"
		in.closed = true
	case oBatched:
		b, e := v.Batched()
		err = e
		if e == nil {
			in.batches[o.v] = batchModel{open: true, ops: map[string]*[]byte{}, hist: map[string]string{}, real: b}
		} else if b != nil {
			return cls + "|non-nil-batch-with-error: Batched returned a batch together with " + errName(e)
		}
	case oBSet:
		b := &in.batches[o.v]
		kb, vb := append([]byte{}, o.key...), append([]byte{}, o.val...)
		err = b.real.Set(kb, vb)
		scribble(kb) // keys are converted to strings at once
		b.bufs = append(b.bufs, vb)
		val := append([]byte{}, o.val...)
		b.ops[string(o.key)] = &val
		b.hist[string(o.key)] = tail3(b.hist[string(o.key)] + "s")
		want = "nil"
	case oBDelete:
		b := &in.batches[o.v]
		kb := append([]byte{}, o.key...)
		err = b.real.Delete(kb)
		scribble(kb)
		b.ops[string(o.key)] = nil
		b.hist[string(o.key)] = tail3(b.hist[string(o.key)] + "d")
		want = "nil"
	case oCommit:
		b := &in.batches[o.v]
		err = b.real.Commit()
		for _, buf := range b.bufs {
			scribble(buf)
		}
		if !in.closed {
			for k, val := range b.ops {
				if val == nil {
					delete(in.model, full(realm, []byte(k)))
				} else {
					in.model[full(realm, []byte(k))] = *val
				}
			}
		}
		b.open = false
	case oCancel:
		b := &in.batches[o.v]
		b.real.Cancel()
		// the batch object stays usable: a later Commit applies what was queued after the Cancel, and nothing of before
		// what was cancelled stays part of the state key (an implementation may wrongly remember some of it)
		var dropped []string
		for k := range b.ops {
			dropped = append(dropped, fmt.Sprintf("%x/%s", k, b.hist[k]))
		}
		sort.Strings(dropped)
		b.ops = map[string]*[]byte{}
		b.hist = map[string]string{"\xff": "cancelled:" + strings.Join(dropped, ",") + ";" + b.hist["\xff"]}
		want = "nil"
	}
	if !in.check {
		return ""
	}
	if got := errName(err); got != want {
		return fmt.Sprintf("%s|error: returned %s, expected %s (closed=%v)", cls, got, want, in.closed)
	}
	return in.probe(cls)
}

// expected iteration result for a view
func (in *inst) expectIter(realm, prefix []byte, backward bool, stop int) (ks []string, vs []string) {
	var all []string
	for k := range in.model {
		if strings.HasPrefix(k, full(realm, prefix)) {
			all = append(all, k)
		}
	}
	sort.Strings(all)
	if backward {
		for i, j := 0, len(all)-1; i < j; i, j = i+1, j-1 {
			all[i], all[j] = all[j], all[i]
		}
	}
	for i, k := range all {
		if stop > 0 && i >= stop {
			break
		}
		ks = append(ks, k[len(realm):])
		vs = append(vs, string(in.model[k]))
	}
	return
}

func (in *inst) probe(cls string) string {
	// whole contents through the unwrapped base store
	if !in.closed {
		got := map[string]string{}
		_ = in.base.Iterate(kvstore.EmptyPrefix, func(k, v []byte) bool { got[string(k)] = string(v); return true })
		if len(got) != len(in.model) {
			return fmt.Sprintf("%s|contents: store has %d entries %q, model %d %q", cls, len(got), fmt.Sprint(got), len(in.model), fmt.Sprint(in.model))
		}
		for k, v := range in.model {
			if g, ok := got[k]; !ok || g != string(v) {
				return fmt.Sprintf("%s|contents: store has %q=%q (present=%v), model %q", cls, k, g, ok, v)
			}
		}
	}
	for vi, v := range in.views {
		realm := in.realms[vi]
		if r := v.Realm(); !bytes.Equal(r, realm) {
			return fmt.Sprintf("%s|realm: view %d reports realm %x, expected %x", cls, vi, r, realm)
		}
		for _, k := range keys {
			mv, present := in.model[full(realm, k)]
			val, err := v.Get(append([]byte{}, k...))
			wantErr := "nil"
			if in.closed {
				wantErr = "ErrStoreClosed"
			} else if !present {
				wantErr = "ErrKeyNotFound"
			}
			if errName(err) != wantErr {
				return fmt.Sprintf("%s|Get-error: v%d.Get(%s) returned %s, expected %s", cls, vi, hx(k), errName(err), wantErr)
			}
			if err == nil && !bytes.Equal(val, mv) {
				return fmt.Sprintf("%s|Get-value: v%d.Get(%s) = %q, expected %q", cls, vi, hx(k), val, mv)
			}
			if err == nil && len(val) > 0 {
				// returned values are private copies
				scribble(val)
				val2, _ := v.Get(append([]byte{}, k...))
				if !bytes.Equal(val2, mv) {
					return fmt.Sprintf("%s|Get-aliasing: mutating the slice returned by v%d.Get(%s) changed the stored value to %q", cls, vi, hx(k), val2)
				}
			}
			has, err := v.Has(append([]byte{}, k...))
			if in.closed {
				if errName(err) != "ErrStoreClosed" {
					return fmt.Sprintf("%s|Has-error: v%d.Has(%s) on a closed store returned %s", cls, vi, hx(k), errName(err))
				}
			} else if err != nil || has != present {
				return fmt.Sprintf("%s|Has: v%d.Has(%s) = %v,%v expected %v", cls, vi, hx(k), has, err, present)
			}
			for _, backward := range []bool{false, true} {
				for _, stop := range []int{0, 1} {
					ek, ev := in.expectIter(realm, k, backward, stop)
					var dir []kvstore.IterDirection
					if backward {
						dir = []kvstore.IterDirection{kvstore.IterDirectionBackward}
					}
					var gk, gv []string
					n := 0
					err := v.Iterate(append([]byte{}, k...), func(key, value []byte) bool {
						gk, gv = append(gk, string(key)), append(gv, string(value))
						scribble(key)
						scribble(value)
						n++
						return stop == 0 || n < stop
					}, dir...)
					var gk2 []string
					n = 0
					err2 := v.IterateKeys(append([]byte{}, k...), func(key []byte) bool {
						gk2 = append(gk2, string(key))
						scribble(key)
						n++
						return stop == 0 || n < stop
					}, dir...)
					if in.closed {
						if errName(err) != "ErrStoreClosed" || errName(err2) != "ErrStoreClosed" || len(gk) != 0 || len(gk2) != 0 {
							return fmt.Sprintf("%s|Iterate-closed: v%d iteration on a closed store returned %s/%s and %d/%d entries", cls, vi, errName(err), errName(err2), len(gk), len(gk2))
						}
						continue
					}
					if err != nil || err2 != nil {
						return fmt.Sprintf("%s|Iterate-error: v%d.Iterate(%s) returned %v/%v", cls, vi, hx(k), err, err2)
					}
					if fmt.Sprintf("%q%q", gk, gv) != fmt.Sprintf("%q%q", ek, ev) {
						return fmt.Sprintf("%s|Iterate: v%d.Iterate(%s,backward=%v,stop=%d) gave keys %x values %q, expected %x %q", cls, vi, hx(k), backward, stop, gk, gv, ek, ev)
					}
					if fmt.Sprintf("%q", gk2) != fmt.Sprintf("%q", ek) {
						return fmt.Sprintf("%s|IterateKeys: v%d.IterateKeys(%s,backward=%v,stop=%d) gave %x, expected %x", cls, vi, hx(k), backward, stop, gk2, ek)
					}
				}
			}
		}
		if in.closed {
			if _, err := v.WithRealm([]byte{1}); errName(err) != "ErrStoreClosed" {
				return fmt.Sprintf("%s|closed-WithRealm: v%d.WithRealm on a closed store returned %s", cls, vi, errName(err))
			}
			if _, err := v.WithExtendedRealm([]byte{1}); errName(err) != "ErrStoreClosed" {
				return fmt.Sprintf("%s|closed-WithExtendedRealm: v%d.WithExtendedRealm on a closed store returned %s", cls, vi, errName(err))
			}
			for _, r := range [][]byte{nil, {}} { // extending by nothing is still an operation on a closed store
				if _, err := v.WithExtendedRealm(r); errName(err) != "ErrStoreClosed" {
					return fmt.Sprintf("%s|closed-WithExtendedRealm: v%d.WithExtendedRealm(empty) on a closed store returned %s", cls, vi, errName(err))
				}
			}
			if b, err := v.Batched(); errName(err) != "ErrStoreClosed" || b != nil {
				return fmt.Sprintf("%s|closed-Batched: v%d.Batched on a closed store returned %s", cls, vi, errName(err))
			}
			if err := v.Flush(); errName(err) != "ErrStoreClosed" {
				return fmt.Sprintf("%s|closed-Flush: v%d.Flush on a closed store returned %s", cls, vi, errName(err))
			}
		}
	}
	return ""
}

func (in *inst) Key() string {
	var ks []string
	for k, v := range in.model {
		ks = append(ks, fmt.Sprintf("%x=%x", k, v))
	}
	sort.Strings(ks)
	var b strings.Builder
	b.WriteString(strings.Join(ks, ","))
	fmt.Fprintf(&b, "|closed=%v", in.closed)
	for _, bm := range in.batches {
		if !bm.open {
			b.WriteString("|-")
			continue
		}
		var bs []string
		for k, v := range bm.ops {
			if v == nil {
				bs = append(bs, fmt.Sprintf("%x:del/%s", k, bm.hist[k]))
			} else {
				bs = append(bs, fmt.Sprintf("%x:%x/%s", k, *v, bm.hist[k]))
			}
		}
		sort.Strings(bs)
		b.WriteString("|" + bm.hist["\xff"] + strings.Join(bs, ","))
	}
	return b.String()
}

// tail3 keeps the last three operation kinds (enough to tell every history the depth bounds can reach apart).
func tail3(h string) string {
	if len(h) > 3 {
		return h[len(h)-3:]
	}
	return h
}

func mkSystem(t tree, w, focus string, depth int) *hist.System {
	ops := alphabet(len(t.views), focus)
	var names []string
	for _, o := range ops {
		names = append(names, o.name)
	}
	return &hist.System{
		Name: fmt.Sprintf("%s/%s/%s", focus, t.name, w), Alphabet: names, Merge: true, MaxDepth: depth, Shallow: 20000,
		New: func() hist.Instance { return newInst(ops, t, w) },
	}
}

func main() {
	var parts []*cli.Part
	for ti, t := range trees {
		for wi, w := range wrappers {
			for _, focus := range []string{"kv", "batch"} {
				t, w, focus := t, w, focus
				// quick: every tree with two wrapper stacks (rotating), thorough: the full product
				quick := wi == ti%len(wrappers) || wi == (ti+2)%len(wrappers)
				p := hist.Part(fmt.Sprintf("%s/%s/%s", focus, t.name, w), func(c *cli.Ctx) []*hist.System {
					d := 4
					if focus == "batch" {
						d = 5 // stored key, open batch, two batch operations on it, Commit
					}
					if c.Thorough() {
						d = 6
					}
					return []*hist.System{mkSystem(t, w, focus, d)}
				})
				p.ThoroughOnly = !quick
				parts = append(parts, p)
			}
		}
	}
	cli.Main(&cli.Property{
		ID: "C04", Level: "model_checking", Parts: parts, QuickSecs: 50, ThoroughSecs: 900,
		Rule: "breadth-first explicit-state search over all histories (quick: 4 steps, batch focus 5; thorough: 6) of mutating operations issued through 3 views of one mapdb (6 view trees x 5 wrapper stacks; kv focus: Set/Delete/DeletePrefix/Clear/Close, batch focus: Set/Delete/Batched/b.Set/b.Delete/Commit/Cancel/Flush/Close), states merged on the model state; after every step every read (Get/Has/Iterate/IterateKeys with 4 prefixes x 2 directions x stop-after-1/none, Realm, and the whole contents through the unwrapped root) is compared with one ordered map keyed by realm||key, and every caller buffer is overwritten after the call returned",
		Assumptions: []string{
			"merging on the model state is sound because after every step the complete contents and every read result of every view are compared with the model",
			"a batch Set keeps the caller's value slice until Commit (mutation between batch Set and Commit is outside the statement and not exercised)",
		},
		NotReached: []string{"more than 3 views / realms longer than 2 bytes", "rocksdb back end"},
	})
}
