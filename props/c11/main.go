// C11 — OrderedMap and Set: insertion-ordered model, exact diffs, no deadlock.
package main

import (
	"fmt"
	"sort"
	"strings"

	"github.com/anishathalye/porcupine"

	"github.com/iotaledger/hive.go/ds"
	"github.com/iotaledger/hive.go/ds/orderedmap"
	"github.com/iotaledger/hive.go/serializer/v2/serix"

	"verif/engine/cli"
	"verif/engine/hist"
	"verif/engine/sched"
	"verif/vrt"
)

// ---------------- OrderedMap history system ----------------

type omOp struct {
	kind string
	k, v int
	name string
}

func omAlphabet() []omOp {
	var ops []omOp
	for k := 1; k <= 3; k++ {
		for v := 1; v <= 2; v++ {
			ops = append(ops, omOp{"set", k, v, fmt.Sprintf("Set(%d,%d)", k, v)})
		}
		ops = append(ops, omOp{"delete", k, 0, fmt.Sprintf("Delete(%d)", k)})
		ops = append(ops, omOp{"foreach-delete-current", k, 0, fmt.Sprintf("ForEach{Delete(current) at %d}", k)})
		ops = append(ops, omOp{"foreachrev-delete-current", k, 0, fmt.Sprintf("ForEachReverse{Delete(current) at %d}", k)})
		ops = append(ops, omOp{"foreach-delete-next", k, 0, fmt.Sprintf("ForEach{Delete(successor) at %d}", k)})
		ops = append(ops, omOp{"foreachrev-delete-next", k, 0, fmt.Sprintf("ForEachReverse{Delete(predecessor) at %d}", k)})
		ops = append(ops, omOp{"foreach-append", k, 0, fmt.Sprintf("ForEach{Set(9) at %d}", k)})
	}
	ops = append(ops, omOp{"delete", 9, 0, "Delete(9)"})
	ops = append(ops, omOp{"clear", 0, 0, "Clear"})
	return ops
}

type kv struct{ k, v int }

type omInst struct {
	ops   []omOp
	real  *orderedmap.OrderedMap[int, int]
	model []kv
	check bool
}

func (in *omInst) Enabled(int) bool { return true }
func (in *omInst) Replay(i int) {
	in.check = false
	defer func() { in.check = true }()
	_ = in.Apply(i)
}

func (in *omInst) find(k int) int {
	for i, e := range in.model {
		if e.k == k {
			return i
		}
	}
	return -1
}

func (in *omInst) Apply(i int) string {
	o := in.ops[i]
	cls := strings.SplitN(o.name, "(", 2)[0]
	switch o.kind {
	case "set":
		pv, ex := in.real.Set(o.k, o.v)
		idx := in.find(o.k)
		if in.check {
			if ex != (idx >= 0) || (ex && pv != in.model[idx].v) {
				return fmt.Sprintf("%s|result: Set(%d,%d) returned (%d,%v), model has index %d", cls, o.k, o.v, pv, ex, idx)
			}
		}
		if idx >= 0 {
			in.model[idx].v = o.v
		} else {
			in.model = append(in.model, kv{o.k, o.v})
		}
	case "delete":
		got := in.real.Delete(o.k)
		idx := in.find(o.k)
		if in.check && got != (idx >= 0) {
			return fmt.Sprintf("%s|result: Delete(%d) returned %v, presence was %v", cls, o.k, got, idx >= 0)
		}
		if idx >= 0 {
			in.model = append(in.model[:idx:idx], in.model[idx+1:]...)
		}
	case "clear":
		in.real.Clear()
		in.model = nil
	case "foreach-delete-next", "foreachrev-delete-next", "foreach-append":
		// the consumer changes the NEIGHBOURHOOD of the key it is visiting: an entry deleted before its turn is not
		// visited, an entry appended while the last entry is being visited is
		rev := o.kind == "foreachrev-delete-next"
		var seen, want []int
		mutate := func(cur int, onReal bool) {
			if cur != o.k {
				return
			}
			idx := in.find(cur)
			if o.kind == "foreach-append" {
				if in.find(9) < 0 {
					if onReal {
						in.real.Set(9, 1)
					} else {
						in.model = append(in.model, kv{9, 1})
					}
				}
				return
			}
			n := idx + 1
			if rev {
				n = idx - 1
			}
			if n >= 0 && n < len(in.model) {
				if onReal {
					in.real.Delete(in.model[n].k)
				} else {
					in.model = append(in.model[:n:n], in.model[n+1:]...)
				}
			}
		}
		f := in.real.ForEach
		if rev {
			f = in.real.ForEachReverse
		}
		// the model is only updated after the real iteration, so that mutate(onReal) can look the neighbour up
		f(func(k, _ int) bool {
			seen = append(seen, k)
			mutate(k, true)
			return true
		})
		start := 0
		if rev {
			start = len(in.model) - 1
		}
		for i := start; ; {
			if i < 0 || i >= len(in.model) {
				break
			}
			cur := in.model[i].k
			want = append(want, cur)
			mutate(cur, false)
			i = in.find(cur)
			if rev {
				i--
				if i < 0 {
					break
				}
			} else {
				i++
			}
		}
		if in.check && fmt.Sprint(seen) != fmt.Sprint(want) {
			return fmt.Sprintf("%s|iteration-neighbourhood: %s visited %v, expected %v", cls, o.name, seen, want)
		}
	case "foreach-delete-current", "foreachrev-delete-current":
		// a consumer that deletes the key it is visiting must still see every other live key
		var seen []int
		f := in.real.ForEach
		want := []int{}
		for _, e := range in.model {
			want = append(want, e.k)
		}
		if o.kind == "foreachrev-delete-current" {
			f = in.real.ForEachReverse
			for a, b := 0, len(want)-1; a < b; a, b = a+1, b-1 {
				want[a], want[b] = want[b], want[a]
			}
		}
		f(func(k, _ int) bool {
			seen = append(seen, k)
			if k == o.k {
				in.real.Delete(k)
			}
			return true
		})
		if idx := in.find(o.k); idx >= 0 {
			in.model = append(in.model[:idx:idx], in.model[idx+1:]...)
		}
		if in.check && fmt.Sprint(seen) != fmt.Sprint(want) {
			return fmt.Sprintf("%s|iteration-truncated: iteration with a consumer deleting key %d visited %v, live keys in order were %v", cls, o.k, seen, want)
		}
	}
	if !in.check {
		return ""
	}
	return in.probe(cls)
}

func (in *omInst) probe(cls string) string {
	r := in.real
	var fw, bw, first []kv
	r.ForEach(func(k, v int) bool { fw = append(fw, kv{k, v}); return true })
	r.ForEachReverse(func(k, v int) bool { bw = append(bw, kv{k, v}); return true })
	r.ForEach(func(k, v int) bool { first = append(first, kv{k, v}); return false })
	rev := append([]kv{}, in.model...)
	for a, b := 0, len(rev)-1; a < b; a, b = a+1, b-1 {
		rev[a], rev[b] = rev[b], rev[a]
	}
	if fmt.Sprint(fw) != fmt.Sprint(append([]kv{}, in.model...)) {
		return fmt.Sprintf("%s|order: ForEach gives %v, insertion-ordered model %v", cls, fw, in.model)
	}
	if fmt.Sprint(bw) != fmt.Sprint(rev) {
		return fmt.Sprintf("%s|reverse-order: ForEachReverse gives %v, model %v", cls, bw, rev)
	}
	if len(first) > 1 || (len(in.model) > 0 && (len(first) != 1 || first[0] != in.model[0])) {
		return fmt.Sprintf("%s|foreach-stop: ForEach with a stopping consumer visited %v", cls, first)
	}
	if r.Size() != len(in.model) || r.IsEmpty() != (len(in.model) == 0) {
		return fmt.Sprintf("%s|size: Size %d IsEmpty %v, model has %d", cls, r.Size(), r.IsEmpty(), len(in.model))
	}
	for k := 1; k <= 3; k++ {
		v, ex := r.Get(k)
		idx := in.find(k)
		if ex != (idx >= 0) || r.Has(k) != ex || (ex && v != in.model[idx].v) {
			return fmt.Sprintf("%s|get: Get(%d)=(%d,%v) Has=%v, model index %d", cls, k, v, ex, r.Has(k), idx)
		}
	}
	hk, hv, hex := r.Head()
	tk, tv, tex := r.Tail()
	if len(in.model) == 0 {
		if hex || tex {
			return fmt.Sprintf("%s|head-tail: Head/Tail exist on an empty map", cls)
		}
	} else if !hex || !tex || (kv{hk, hv}) != in.model[0] || (kv{tk, tv}) != in.model[len(in.model)-1] {
		return fmt.Sprintf("%s|head-tail: Head (%d,%d,%v) Tail (%d,%d,%v), model %v", cls, hk, hv, hex, tk, tv, tex, in.model)
	}
	var cl []kv
	r.Clone().ForEach(func(k, v int) bool { cl = append(cl, kv{k, v}); return true })
	if fmt.Sprint(cl) != fmt.Sprint(fw) {
		return fmt.Sprintf("%s|clone: Clone has %v, original %v", cls, cl, fw)
	}
	return ""
}

func (in *omInst) Key() string { return fmt.Sprint(in.model) }

// ---------------- Set history system ----------------

func subsets() [][]int {
	var out [][]int
	for m := 0; m < 8; m++ {
		var s []int
		// two orders for the full information on ordering: ascending for even masks, descending for odd
		for e := 1; e <= 3; e++ {
			if m&(1<<(e-1)) != 0 {
				s = append(s, e)
			}
		}
		if m%2 == 1 {
			for a, b := 0, len(s)-1; a < b; a, b = a+1, b-1 {
				s[a], s[b] = s[b], s[a]
			}
		}
		out = append(out, s)
	}
	return out
}

type setOp struct {
	kind string
	e    int
	a, d []int
	self bool
	name string
}

func setAlphabet() []setOp {
	var ops []setOp
	for e := 1; e <= 3; e++ {
		ops = append(ops, setOp{kind: "add", e: e, name: fmt.Sprintf("Add(%d)", e)}, setOp{kind: "delete", e: e, name: fmt.Sprintf("Delete(%d)", e)})
	}
	for _, s := range subsets() {
		ops = append(ops,
			setOp{kind: "addall", a: s, name: fmt.Sprintf("AddAll(%v)", s)},
			setOp{kind: "deleteall", a: s, name: fmt.Sprintf("DeleteAll(%v)", s)},
			setOp{kind: "replace", a: s, name: fmt.Sprintf("Replace(%v)", s)},
			setOp{kind: "compute-toggle", a: s, name: fmt.Sprintf("Compute{toggle %v}", s)},
		)
		for _, d := range subsets() {
			// overlapping pairs included: Apply adds first, then deletes, and reports both steps
			ops = append(ops, setOp{kind: "apply", a: s, d: d, name: fmt.Sprintf("Apply(+%v,-%v)", s, d)})
		}
	}
	ops = append(ops,
		setOp{kind: "deleteall", self: true, name: "DeleteAll(self)"},
		setOp{kind: "addall", self: true, name: "AddAll(self)"},
		setOp{kind: "replace", self: true, name: "Replace(self.Clone)"},
		setOp{kind: "clear", name: "Clear"},
		setOp{kind: "decode", name: "Decode(Encode(clone))"},
	)
	return ops
}

type setInst struct {
	ops   []setOp
	real  ds.Set[int]
	model []int
	check bool
}

func (in *setInst) Enabled(int) bool { return true }
func (in *setInst) Replay(i int) {
	in.check = false
	defer func() { in.check = true }()
	_ = in.Apply(i)
}

func has(s []int, e int) bool {
	for _, x := range s {
		if x == e {
			return true
		}
	}
	return false
}

func remove(s []int, e int) []int {
	var out []int
	for _, x := range s {
		if x != e {
			out = append(out, x)
		}
	}
	return out
}

func sl(s interface{ ToSlice() []int }) []int { return append([]int{}, s.ToSlice()...) }

func (in *setInst) Apply(i int) string {
	o := in.ops[i]
	cls := strings.SplitN(strings.SplitN(o.name, "(", 2)[0], "{", 2)[0]
	if o.self {
		cls += "(self)"
	}
	arg := ds.NewSet(o.a...)
	argList := o.a
	if o.self {
		argList = append([]int{}, in.model...)
	}
	eq := func(what string, got, want []int) string {
		if fmt.Sprint(got) != fmt.Sprint(append([]int{}, want...)) {
			return fmt.Sprintf("%s|%s: %s returned %v, exactly %v changed membership (set was %v)", cls, what, o.name, got, want, in.model)
		}
		return ""
	}
	var msg string
	switch o.kind {
	case "add":
		got := in.real.Add(o.e)
		if in.check && got == has(in.model, o.e) {
			msg = fmt.Sprintf("%s|result: Add(%d) returned %v, presence was %v", cls, o.e, got, has(in.model, o.e))
		}
		if !has(in.model, o.e) {
			in.model = append(in.model, o.e)
		}
	case "delete":
		got := in.real.Delete(o.e)
		if in.check && got != has(in.model, o.e) {
			msg = fmt.Sprintf("%s|result: Delete(%d) returned %v, presence was %v", cls, o.e, got, has(in.model, o.e))
		}
		in.model = remove(in.model, o.e)
	case "addall":
		var got ds.Set[int]
		if o.self {
			got = in.real.AddAll(in.real)
		} else {
			got = in.real.AddAll(arg)
		}
		var want []int
		for _, e := range argList {
			if !has(in.model, e) {
				want = append(want, e)
				in.model = append(in.model, e)
			}
		}
		if in.check {
			msg = eq("diff", sl(got), want)
		}
	case "deleteall":
		var got ds.Set[int]
		if o.self {
			got = in.real.DeleteAll(in.real)
		} else {
			got = in.real.DeleteAll(arg)
		}
		var want []int
		for _, e := range argList {
			if has(in.model, e) {
				want = append(want, e)
				in.model = remove(in.model, e)
			}
		}
		if in.check {
			msg = eq("diff", sl(got), want)
		}
	case "replace":
		var got ds.Set[int]
		if o.self {
			got = in.real.Replace(in.real.Clone())
		} else {
			got = in.real.Replace(arg)
		}
		var want []int
		for _, e := range in.model {
			if !has(argList, e) {
				want = append(want, e)
			}
		}
		in.model = append([]int{}, argList...)
		if in.check {
			msg = eq("diff", sl(got), want)
		}
	case "apply", "compute-toggle":
		add, del := o.a, o.d
		var got ds.SetMutations[int]
		if o.kind == "compute-toggle" {
			// the factory reads the set: toggle every element of o.a
			add, del = nil, nil
			for _, e := range o.a {
				if has(in.model, e) {
					del = append(del, e)
				} else {
					add = append(add, e)
				}
			}
			got = in.real.Compute(func(s ds.ReadableSet[int]) ds.SetMutations[int] {
				a, d := ds.NewSet[int](), ds.NewSet[int]()
				for _, e := range o.a {
					if s.Has(e) {
						d.Add(e)
					} else {
						a.Add(e)
					}
				}
				return ds.NewSetMutations[int]().WithAddedElements(a).WithDeletedElements(d)
			})
		} else {
			got = in.real.Apply(ds.NewSetMutations[int]().WithAddedElements(ds.NewSet(add...)).WithDeletedElements(ds.NewSet(del...)))
		}
		var wa, wd []int
		for _, e := range add {
			if !has(in.model, e) {
				wa = append(wa, e)
				in.model = append(in.model, e)
			}
		}
		for _, e := range del {
			if has(in.model, e) {
				wd = append(wd, e)
				in.model = remove(in.model, e)
			}
		}
		if in.check {
			if msg = eq("added-diff", sl(got.AddedElements()), wa); msg == "" {
				msg = eq("deleted-diff", sl(got.DeletedElements()), wd)
			}
			if msg == "" && got.IsEmpty() != (len(wa)+len(wd) == 0) {
				msg = fmt.Sprintf("%s|isempty: IsEmpty of the applied mutations is %v", cls, got.IsEmpty())
			}
		}
	case "clear":
		in.real.Clear()
		in.model = nil
	case "decode":
		// serix has no encoding for int: round-trip a Set[int32] with the same contents and order
		api := serix.NewAPI()
		src := ds.NewSet[int32]()
		for _, e := range in.real.ToSlice() {
			src.Add(int32(e))
		}
		b, err := src.Encode(api)
		if err != nil {
			return fmt.Sprintf("%s|encode-error: %v", cls, err)
		}
		fresh := ds.NewSet[int32]()
		n, err := fresh.Decode(api, b)
		if err != nil || n != len(b) {
			return fmt.Sprintf("%s|decode: Decode returned (%d,%v) for %d bytes", cls, n, err, len(b))
		}
		var got []int
		for _, e := range fresh.ToSlice() {
			got = append(got, int(e))
		}
		if in.check && fmt.Sprint(got) != fmt.Sprint(append([]int{}, in.model...)) {
			return fmt.Sprintf("%s|roundtrip: Encode/Decode gives %v, set is %v", cls, got, in.model)
		}
	}
	if msg != "" || !in.check {
		return msg
	}
	return in.probe(cls)
}

func (in *setInst) probe(cls string) string {
	r := in.real
	m := append([]int{}, in.model...)
	if fmt.Sprint(sl(r)) != fmt.Sprint(m) {
		return fmt.Sprintf("%s|order: ToSlice gives %v, insertion-ordered model %v", cls, sl(r), m)
	}
	var rg, fe, it []int
	r.Range(func(e int) { rg = append(rg, e) })
	_ = r.ForEach(func(e int) error { fe = append(fe, e); return nil })
	w := r.Iterator()
	for w.HasNext() {
		it = append(it, w.Next())
	}
	if fmt.Sprint(append([]int{}, rg...)) != fmt.Sprint(m) || fmt.Sprint(append([]int{}, fe...)) != fmt.Sprint(m) || fmt.Sprint(append([]int{}, it...)) != fmt.Sprint(m) {
		return fmt.Sprintf("%s|iteration: Range %v ForEach %v Iterator %v, model %v", cls, rg, fe, it, m)
	}
	if r.Size() != len(m) || r.IsEmpty() != (len(m) == 0) {
		return fmt.Sprintf("%s|size: Size %d, model %d", cls, r.Size(), len(m))
	}
	a, ex := r.Any()
	if ex != (len(m) > 0) || (ex && a != m[0]) {
		return fmt.Sprintf("%s|any: Any returned (%d,%v), model %v", cls, a, ex, m)
	}
	if fmt.Sprint(sl(r.Clone())) != fmt.Sprint(m) || fmt.Sprint(sl(r.ReadOnly())) != fmt.Sprint(m) {
		return fmt.Sprintf("%s|clone: Clone %v ReadOnly %v, model %v", cls, sl(r.Clone()), sl(r.ReadOnly()), m)
	}
	for e := 1; e <= 3; e++ {
		if r.Has(e) != has(m, e) {
			return fmt.Sprintf("%s|has: Has(%d)=%v, model %v", cls, e, r.Has(e), m)
		}
		if r.Is(e) != (len(m) == 1 && m[0] == e) {
			return fmt.Sprintf("%s|is: Is(%d)=%v, model %v", cls, e, r.Is(e), m)
		}
	}
	for _, s := range subsets() {
		other := ds.NewSet(s...)
		all, eqv := true, len(s) == len(m)
		var inter []int
		for _, e := range s {
			if !has(m, e) {
				all, eqv = false, false
			}
		}
		for _, e := range m {
			if has(s, e) {
				inter = append(inter, e)
			}
		}
		if r.HasAll(other) != all {
			return fmt.Sprintf("%s|hasall: HasAll(%v)=%v, model %v", cls, s, r.HasAll(other), m)
		}
		if r.Equals(other) != eqv {
			return fmt.Sprintf("%s|equals: Equals(%v)=%v, model %v", cls, s, r.Equals(other), m)
		}
		if got := sl(r.Intersect(other)); fmt.Sprint(got) != fmt.Sprint(append([]int{}, inter...)) {
			return fmt.Sprintf("%s|intersect: Intersect(%v)=%v, expected %v", cls, s, got, inter)
		}
	}
	var odd []int
	for _, e := range m {
		if e%2 == 1 {
			odd = append(odd, e)
		}
	}
	if got := sl(r.Filter(func(e int) bool { return e%2 == 1 })); fmt.Sprint(got) != fmt.Sprint(append([]int{}, odd...)) {
		return fmt.Sprintf("%s|filter: Filter(odd)=%v, expected %v", cls, got, odd)
	}
	return ""
}

func (in *setInst) Key() string { return fmt.Sprint(in.model) }

// ---------------- SetArithmetic history system ----------------

type arInst struct {
	ops       []setOp
	threshold int
	real      ds.SetArithmetic[int]
	count     map[int]int
	check     bool
}

func arAlphabet() []setOp {
	var ops []setOp
	for _, k := range []string{"ar-add", "ar-sub"} {
		for _, a := range subsets() {
			for _, d := range subsets() {
				// overlapping pairs included: an element both added and deleted by one mutation nets to nothing
				if len(a)+len(d) > 0 {
					ops = append(ops, setOp{kind: k, a: a, d: d, name: fmt.Sprintf("%s(+%v,-%v)", map[string]string{"ar-add": "Add", "ar-sub": "Subtract"}[k], a, d)})
				}
			}
		}
	}
	return ops
}

func (in *arInst) Enabled(i int) bool {
	// keep the counters in a small range so that the state space is finite
	o := in.ops[i]
	sign := 1
	if o.kind == "ar-sub" {
		sign = -1
	}
	for _, e := range o.a {
		if c := in.count[e] + sign; c > 3 || c < -1 {
			return false
		}
	}
	for _, e := range o.d {
		if c := in.count[e] - sign; c > 3 || c < -1 {
			return false
		}
	}
	return true
}

func (in *arInst) Replay(i int) {
	in.check = false
	defer func() { in.check = true }()
	_ = in.Apply(i)
}

func (in *arInst) Apply(i int) string {
	o := in.ops[i]
	cls := strings.SplitN(o.name, "(", 2)[0]
	m := ds.NewSetMutations[int]().WithAddedElements(ds.NewSet(o.a...)).WithDeletedElements(ds.NewSet(o.d...))
	var got ds.SetMutations[int]
	inc, dec := o.a, o.d
	if o.kind == "ar-add" {
		got = in.real.Add(m, in.threshold)
	} else {
		got = in.real.Subtract(m, in.threshold)
		inc, dec = o.d, o.a
	}
	var wa, wd []int
	member := func(e int) bool { return in.count[e] >= in.threshold }
	before := map[int]bool{1: member(1), 2: member(2), 3: member(3)}
	for _, e := range inc {
		in.count[e]++
	}
	for _, e := range dec {
		in.count[e]--
	}
	for e := 1; e <= 3; e++ {
		if member(e) && !before[e] {
			wa = append(wa, e)
		}
		if !member(e) && before[e] {
			wd = append(wd, e)
		}
	}
	if !in.check {
		return ""
	}
	ga, gd := sl(got.AddedElements()), sl(got.DeletedElements())
	sort.Ints(ga)
	sort.Ints(gd)
	if fmt.Sprint(ga) != fmt.Sprint(append([]int{}, wa...)) || fmt.Sprint(gd) != fmt.Sprint(append([]int{}, wd...)) {
		return fmt.Sprintf("%s|threshold-diff: %s with threshold %d returned +%v -%v, membership (count >= threshold) changed for +%v -%v (counts now %v)", cls, o.name, in.threshold, ga, gd, wa, wd, in.count)
	}
	return ""
}

func (in *arInst) Key() string { return fmt.Sprint(in.count[1], in.count[2], in.count[3]) }

// ---------------- concurrent scenarios ----------------

type setIn struct {
	op string
	e  int
}

func setModel() porcupine.Model {
	return porcupine.Model{
		Init: func() interface{} { return 0 },
		Step: func(st, in, out interface{}) (bool, interface{}) {
			s, i, o := st.(int), in.(setIn), out.(bool)
			bit := 1 << i.e
			switch i.op {
			case "add":
				return o == (s&bit == 0), s | bit
			case "delete":
				return o == (s&bit != 0), s &^ bit
			}
			return o == (s&bit != 0), s
		},
	}
}

type rec struct{ ops []porcupine.Operation }

func (r *rec) do(c int, in setIn, f func() bool) {
	vrt.Observe("call")
	t := int64(len(vrt.E.Log))
	out := f()
	vrt.Observe("ret", in.op, in.e, out)
	r.ops = append(r.ops, porcupine.Operation{ClientId: c, Input: in, Call: t, Output: out, Return: int64(len(vrt.E.Log))})
}

func mut(add, del []int) ds.SetMutations[int] {
	return ds.NewSetMutations[int]().WithAddedElements(ds.NewSet(add...)).WithDeletedElements(ds.NewSet(del...))
}

func scenarios() []*sched.Scenario {
	var out []*sched.Scenario
	out = append(out, &sched.Scenario{Name: "deleteall-vs-apply", Run: func() {
		s := ds.NewSet(1, 2)
		vrt.Par(func() { s.DeleteAll(ds.NewSet(1, 2)) }, func() { s.Apply(mut([]int{3}, nil)) })
		vrt.Observe("final", fmt.Sprint(s.ToSlice()))
		if fmt.Sprint(s.ToSlice()) != "[3]" {
			vrt.Fail("final-state", "after DeleteAll({1,2}) || Apply(+3) the set is %v", s.ToSlice())
		}
	}})
	// read-only bulk views racing single-element writers: every reported element was a member at some point, none twice
	out = append(out, &sched.Scenario{Name: "toslice-iterator-vs-add-delete", UnboundedThoroughOnly: true, Run: func() {
		s := ds.NewSet(1, 2, 3)
		var got, viaIt []int
		vrt.Par(
			func() {
				got = s.ToSlice()
				it := s.Iterator()
				for it.HasNext() {
					viaIt = append(viaIt, it.Next())
				}
			},
			func() { s.Delete(1); s.Add(4) },
			func() { s.Delete(3) },
		)
		vrt.Observe("final", fmt.Sprint(got), fmt.Sprint(viaIt), fmt.Sprint(s.ToSlice()))
		for _, l := range [][]int{got, viaIt} {
			seen := map[int]bool{}
			for _, e := range l {
				if e < 1 || e > 4 {
					vrt.Fail("phantom-element", "ToSlice/Iterator reported %d, which was never an element of the set (result %v)", e, l)
				}
				if seen[e] {
					vrt.Fail("duplicate-element", "ToSlice/Iterator reported %d twice (result %v)", e, l)
				}
				seen[e] = true
			}
			if !seen[2] {
				vrt.Fail("missing-element", "element 2 was a member throughout but is missing from %v", l)
			}
		}
	}})
	out = append(out, &sched.Scenario{Name: "addall-deleteall-vs-replace", UnboundedThoroughOnly: true, Run: func() {
		s := ds.NewSet(1)
		vrt.Par(func() { s.AddAll(ds.NewSet(2, 3)) }, func() { s.Replace(ds.NewSet(3, 1)) }, func() { s.DeleteAll(ds.NewSet(1)) })
		vrt.Observe("final", fmt.Sprint(s.ToSlice()))
	}})
	out = append(out, &sched.Scenario{Name: "compute-vs-compute", Run: func() {
		// every Compute moves the smallest missing element in: two computes must add two different elements
		s := ds.NewSet[int]()
		f := func(r ds.ReadableSet[int]) ds.SetMutations[int] {
			for e := 1; ; e++ {
				if !r.Has(e) {
					return mut([]int{e}, nil)
				}
			}
		}
		var d1, d2 ds.SetMutations[int]
		vrt.Par(func() { d1 = s.Compute(f) }, func() { d2 = s.Compute(f) })
		vrt.Observe("final", fmt.Sprint(s.ToSlice()), fmt.Sprint(d1.AddedElements().ToSlice()), fmt.Sprint(d2.AddedElements().ToSlice()))
		if s.Size() != 2 || !s.Has(1) || !s.Has(2) {
			vrt.Fail("compute-not-atomic", "two atomic read-modify-write Computes left the set as %v (diffs +%v and +%v)", s.ToSlice(), d1.AddedElements().ToSlice(), d2.AddedElements().ToSlice())
		}
	}})
	out = append(out, &sched.Scenario{Name: "compute-vs-apply-vs-replace", UnboundedThoroughOnly: true, Run: func() {
		// Compute copies element 1's presence onto element 2; Apply toggles 1 away; Replace sets {1,3}
		s := ds.NewSet(1)
		var dc ds.SetMutations[int]
		vrt.Par(
			func() {
				dc = s.Compute(func(r ds.ReadableSet[int]) ds.SetMutations[int] {
					if r.Has(1) {
						return mut([]int{2}, nil)
					}
					return mut(nil, []int{2})
				})
			},
			func() { s.Apply(mut(nil, []int{1})) },
			func() { s.Replace(ds.NewSet(1, 3)) },
		)
		got := fmt.Sprint(s.ToSlice())
		vrt.Observe("final", got, dc.IsEmpty())
		// serial orders of C (compute), A (apply -1), R (replace {1,3}) from {1}
		allowed := map[string]bool{}
		type st = []int
		apply := func(x st, op byte) st {
			switch op {
			case 'C':
				if has(x, 1) {
					if !has(x, 2) {
						x = append(append(st{}, x...), 2)
					}
				} else {
					x = remove(x, 2)
				}
			case 'A':
				x = remove(x, 1)
			case 'R':
				x = st{1, 3}
			}
			return x
		}
		for _, ord := range []string{"CAR", "CRA", "ACR", "ARC", "RCA", "RAC"} {
			x := st{1}
			for i := 0; i < 3; i++ {
				x = apply(x, ord[i])
			}
			allowed[fmt.Sprint(append(st{}, x...))] = true
		}
		if !allowed[got] {
			vrt.Fail("not-serializable", "Compute || Apply || Replace ended in %s, serial orders allow %v", got, allowed)
		}
	}})
	out = append(out, &sched.Scenario{Name: "apply-vs-apply-diffs", Run: func() {
		s := ds.NewSet(1)
		var d1, d2 ds.SetMutations[int]
		vrt.Par(func() { d1 = s.Apply(mut([]int{2}, []int{1})) }, func() { d2 = s.Apply(mut([]int{1, 2}, nil)) })
		r1 := fmt.Sprint(d1.AddedElements().ToSlice(), d1.DeletedElements().ToSlice())
		r2 := fmt.Sprint(d2.AddedElements().ToSlice(), d2.DeletedElements().ToSlice())
		fin := fmt.Sprint(s.ToSlice())
		vrt.Observe("final", fin, r1, r2)
		// order 1;2: d1=+[2]-[1], d2=+[1]-[] final [2 1]   order 2;1: d2=+[2]-[], d1=+[]-[1] final [2]
		okA := r1 == "[2] [1]" && r2 == "[1] []" && fin == "[2 1]"
		okB := r2 == "[2] []" && r1 == "[] [1]" && fin == "[2]"
		if !okA && !okB {
			vrt.Fail("apply-not-atomic", "Apply(+2,-1) || Apply(+1,+2) returned %s and %s, final %s: no serial order explains this", r1, r2, fin)
		}
	}})
	// two add-only Applies are atomic with respect to each other as well: the results and the insertion order are
	// those of one of the two serial orders
	out = append(out, &sched.Scenario{Name: "apply-vs-apply-add-only", Run: func() {
		s := ds.NewSet[int]()
		var d1, d2 ds.SetMutations[int]
		vrt.Par(func() { d1 = s.Apply(mut([]int{1, 2}, nil)) }, func() { d2 = s.Apply(mut([]int{2, 3}, nil)) })
		r1, r2 := fmt.Sprint(d1.AddedElements().ToSlice()), fmt.Sprint(d2.AddedElements().ToSlice())
		fin := fmt.Sprint(s.ToSlice())
		vrt.Observe("final", fin, r1, r2)
		okA := r1 == "[1 2]" && r2 == "[3]" && fin == "[1 2 3]"
		okB := r2 == "[2 3]" && r1 == "[1]" && fin == "[2 3 1]"
		if !okA && !okB {
			vrt.Fail("apply-not-atomic", "Apply(+1,+2) || Apply(+2,+3) returned %s and %s, final order %s: no serial order explains this", r1, r2, fin)
		}
	}})
	// every writer that works element by element (Add, Delete, AddAll, DeleteAll) against every atomic bulk operation
	// (Replace, Apply, Compute) on overlapping elements: results and final contents (with insertion order) are those
	// of one of the two serial orders, computed on fresh sets
	{
		type op struct {
			name string
			run  func(s ds.Set[int]) string
		}
		sls := func(x ds.ReadableSet[int]) string { l := x.ToSlice(); sort.Ints(l); return fmt.Sprint(l) }
		muts := func(m ds.SetMutations[int]) string { return "+" + sls(m.AddedElements()) + "-" + sls(m.DeletedElements()) }
		elementwise := []op{
			{"Add(2)", func(s ds.Set[int]) string { return fmt.Sprint(s.Add(2)) }},
			{"Add(5)", func(s ds.Set[int]) string { return fmt.Sprint(s.Add(5)) }},
			{"Delete(2)", func(s ds.Set[int]) string { return fmt.Sprint(s.Delete(2)) }},
			{"Delete(1)", func(s ds.Set[int]) string { return fmt.Sprint(s.Delete(1)) }},
			{"AddAll(2,5)", func(s ds.Set[int]) string { return sls(s.AddAll(ds.NewSet(2, 5))) }},
			{"DeleteAll(1,2)", func(s ds.Set[int]) string { return sls(s.DeleteAll(ds.NewSet(1, 2))) }},
		}
		bulk := []op{
			{"Replace(2,3,4)", func(s ds.Set[int]) string { return sls(s.Replace(ds.NewSet(2, 3, 4))) }},
			{"Apply(+4,-2)", func(s ds.Set[int]) string { return muts(s.Apply(mut([]int{4}, []int{2}))) }},
			{"Compute(2?+5-2:+2)", func(s ds.Set[int]) string {
				return muts(s.Compute(func(r ds.ReadableSet[int]) ds.SetMutations[int] {
					if r.Has(2) {
						return mut([]int{5}, []int{2})
					}
					return mut([]int{2}, nil)
				}))
			}},
		}
		for _, a := range elementwise {
			for _, b := range bulk {
				a, b := a, b
				allowed := map[string]bool{}
				for _, ab := range []bool{true, false} {
					s := ds.NewSet(1, 2, 3)
					var ra, rb string
					if ab {
						ra = a.run(s)
						rb = b.run(s)
					} else {
						rb = b.run(s)
						ra = a.run(s)
					}
					allowed[fmt.Sprint(ra, " ", rb, " ", s.ToSlice())] = true
				}
				out = append(out, &sched.Scenario{Name: "atomic-pair/" + a.name + "-vs-" + b.name, Run: func() {
					s := ds.NewSet(1, 2, 3)
					var ra, rb string
					vrt.Par(func() { ra = a.run(s) }, func() { rb = b.run(s) })
					got := fmt.Sprint(ra, " ", rb, " ", s.ToSlice())
					vrt.Observe("final", got)
					if !allowed[got] {
						vrt.Fail("not-serializable", "%s || %s on {1,2,3} gave (results, final) %s; the two serial orders give %v", a.name, b.name, got, allowed)
					}
				}})
			}
		}
	}
	out = append(out, &sched.Scenario{Name: "add-delete-has-linearizable", Run: func() {
		s := ds.NewSet[int]()
		r := &rec{}
		vrt.Par(
			func() {
				r.do(1, setIn{"add", 1}, func() bool { return s.Add(1) })
				r.do(1, setIn{"has", 1}, func() bool { return s.Has(1) })
			},
			func() { r.do(2, setIn{"delete", 1}, func() bool { return s.Delete(1) }) },
			func() { r.do(3, setIn{"add", 1}, func() bool { return s.Add(1) }) },
		)
		r.do(9, setIn{"has", 1}, func() bool { return s.Has(1) })
		if !porcupine.CheckOperations(setModel(), r.ops) {
			vrt.Fail("not-linearizable", "single-element operations are not linearizable: %v", r.ops)
		}
	}})
	out = append(out, &sched.Scenario{Name: "orderedmap-set-delete-foreach", Run: func() {
		m := orderedmap.New[int, int]()
		m.Set(1, 1)
		m.Set(2, 1)
		var seen []int
		vrt.Par(
			func() { m.Set(3, 1); m.Delete(1) },
			func() { m.Delete(2) },
			func() { m.ForEach(func(k, _ int) bool { seen = append(seen, k); return true }) },
		)
		var fin []int
		m.ForEach(func(k, _ int) bool { fin = append(fin, k); return true })
		vrt.Observe("final", fmt.Sprint(fin), fmt.Sprint(seen))
		if fmt.Sprint(fin) != "[3]" {
			vrt.Fail("final-state", "map is %v after Set(3);Delete(1) || Delete(2)", fin)
		}
		dup := map[int]bool{}
		for _, k := range seen {
			if dup[k] || k < 1 || k > 3 {
				vrt.Fail("foreach-duplicate", "concurrent ForEach visited %v", seen)
			}
			dup[k] = true
		}
	}})
	return out
}

func main() {
	om := omAlphabet()
	var omNames []string
	for _, o := range om {
		omNames = append(omNames, o.name)
	}
	so := setAlphabet()
	var soNames []string
	for _, o := range so {
		soNames = append(soNames, o.name)
	}
	ar := arAlphabet()
	var arNames []string
	for _, o := range ar {
		arNames = append(arNames, o.name)
	}
	parts := []*cli.Part{
		hist.Part("orderedmap", func(c *cli.Ctx) []*hist.System {
			return []*hist.System{{Name: "orderedmap", Alphabet: omNames, Merge: true, MaxDepth: 20,
				New: func() hist.Instance {
					return &omInst{ops: om, real: orderedmap.New[int, int](), check: true}
				}}}
		}),
		hist.Part("set", func(c *cli.Ctx) []*hist.System {
			return []*hist.System{{Name: "set", Alphabet: soNames, Merge: true, MaxDepth: 20,
				New: func() hist.Instance { return &setInst{ops: so, real: ds.NewSet[int](), check: true} }}}
		}),
		hist.Part("setarithmetic", func(c *cli.Ctx) []*hist.System {
			var out []*hist.System
			for _, th := range []int{1, 2} {
				th := th
				out = append(out, &hist.System{Name: fmt.Sprintf("setarithmetic/threshold%d", th), Alphabet: arNames, Merge: true, MaxDepth: 30,
					New: func() hist.Instance {
						return &arInst{ops: ar, threshold: th, real: ds.NewSetArithmetic[int](), count: map[int]int{}, check: true}
					}})
			}
			return out
		}),
	}
	cli.Main(&cli.Property{
		ID: "C11", Level: "model_checking", Scenarios: scenarios(), Parts: parts,
		QuickBound: 2, ThoroughBound: 3, QuickUnbounded: true, ThoroughUnbounded: true, Cache: true, QuickSecs: 45, ThoroughSecs: 600,
		RaceHB:      &cli.RaceHB{QuickBound: 1, ThoroughBound: 2},
		Rule:        "H: breadth-first search to the fixpoint of the reachable (insertion-ordered) state space over universe {1,2,3}: OrderedMap Set/Delete/Clear and iteration with a consumer deleting the visited key; Set Add/Delete/AddAll/DeleteAll/Replace/Apply/Compute/Clear/Encode-Decode with every subset (and the set itself) as argument, every probe (Has/HasAll/Equals/Intersect/Filter/Clone/Is/Any/ToSlice/Iterator/Range/ForEach/Size) after every step; SetArithmetic Add/Subtract with thresholds 1 and 2 over all mutation pairs (added, deleted), overlapping ones included. S: all interleavings of 7 scenarios of concurrent Set/OrderedMap method calls; distinct = distinct states / observation logs",
		Assumptions: []string{"Apply is exercised with disjoint added/deleted sets", "Replace is defined as Clear followed by adding the new elements in their order"},
		NotReached:  []string{"universes larger than 3 elements", "more than 3 concurrent callers"},
	})
}
