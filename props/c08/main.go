// C08 — BatchedWriter never loses or half-writes an enqueued object.
package main

import (
	"errors"
	"fmt"
	"time"

	"github.com/iotaledger/hive.go/kvstore"
	"github.com/iotaledger/hive.go/kvstore/mapdb"

	"verif/engine/cli"
	"verif/engine/sched"
	"verif/vatomic"
	"verif/vrt"
)

// obsStore observes batch commits of the wrapped store.
type obsStore struct {
	kvstore.KVStore
}

type obsBatch struct {
	kvstore.BatchedMutations
}

func (s *obsStore) Batched() (kvstore.BatchedMutations, error) {
	b, err := s.KVStore.Batched()
	if err != nil {
		return nil, err
	}
	return &obsBatch{b}, nil
}

// failCommits makes every batch Commit of the observed store fail (a store fault); set by one scenario only.
var failCommits bool

func (b *obsBatch) Commit() error {
	if failCommits {
		b.BatchedMutations.Cancel()
		vrt.Observe("commit", false)
		return errors.New("injected commit failure")
	}
	err := b.BatchedMutations.Commit()
	vrt.Observe("commit", err == nil)
	return err
}

// obj is a BatchWriteObject: key = id, value = version at BatchWrite time.
type obj struct {
	id        byte
	version   vatomic.Int32
	scheduled vatomic.Bool
	// optional user code of the object (runs inside the corresponding callback)
	onWrite, onScheduled, onReset func()
}

func (o *obj) BatchWrite(m kvstore.BatchedMutations) {
	if o.onWrite != nil {
		o.onWrite()
	}
	v := o.version.Load()
	if err := m.Set([]byte{o.id}, []byte{byte(v)}); err != nil {
		panic(err)
	}
	vrt.Observe("bw", o.id, v)
}
func (o *obj) BatchWriteDone()           { vrt.Observe("done", o.id) }
func (o *obj) BatchWriteScheduled() bool {
	if o.onScheduled != nil {
		o.onScheduled()
	}
	return !o.scheduled.CompareAndSwap(false, true)
}
func (o *obj) ResetBatchWriteScheduled() {
	if o.onReset != nil {
		o.onReset()
	}
	o.scheduled.Store(false)
}

type env struct {
	store kvstore.KVStore
	bw    *kvstore.BatchedWriter
	objs  map[byte]*obj
	// per successful (non-skipped) enqueue: object id and version at call time, and whether it returned before Stop was invoked
	enq []enqRec
}

type enqRec struct {
	id       byte
	ver      int32
	returned bool
	preStop  bool // returned before Stop was invoked
}

func newEnv(queue, batch int, timeout ...time.Duration) *env {
	batchTimeout := 10 * time.Millisecond
	if len(timeout) > 0 {
		batchTimeout = timeout[0]
	}
	st := mapdb.NewMapDB()
	e := &env{store: st, objs: map[byte]*obj{}}
	e.bw = kvstore.NewBatchedWriter(&obsStore{st}, kvstore.WithQueueSize(queue), kvstore.WithBatchSize(batch), kvstore.WithBatchTimeout(batchTimeout))
	for _, id := range []byte{1, 2, 3} {
		e.objs[id] = &obj{id: id}
	}
	return e
}

var stopInvoked bool

// enqueue bumps the version and enqueues.
func (e *env) enqueue(id byte) {
	o := e.objs[id]
	v := o.version.Add(1)
	vrt.Observe("enq.call", id, v)
	e.bw.Enqueue(o)
	vrt.Observe("enq.ret", id, v)
}

// check evaluates the oracle on the log after Stop has returned and the system is quiescent.
func (e *env) check() {
	log := vrt.E.Log
	stopCall, stopRet := -1, -1
	for i, ev := range log {
		switch ev.Kind {
		case "stop.call":
			if stopCall < 0 {
				stopCall = i
			}
		case "stop.ret":
			if stopRet < 0 {
				stopRet = i
			}
		}
	}
	lastBW := map[byte]int32{}
	nBW, nDone := map[byte]int{}, map[byte]int{}
	pendingDone := map[byte]int{} // bw events not yet followed by commit+done
	uncommitted := map[byte]int{}
	for i, ev := range log {
		switch ev.Kind {
		case "bw":
			id := ev.Args[0].(byte)
			lastBW[id] = ev.Args[1].(int32)
			nBW[id]++
			uncommitted[id]++
			if stopRet >= 0 && i > stopRet {
				vrt.Fail("late|BatchWrite-after-Stop-returned", "BatchWrite(%d) after StopBatchWriter returned", id)
			}
		case "commit":
			for id, n := range uncommitted {
				pendingDone[id] += n
				delete(uncommitted, id)
			}
			if stopRet >= 0 && i > stopRet {
				vrt.Fail("late|Commit-after-Stop-returned", "store Commit after StopBatchWriter returned")
			}
		case "done":
			id := ev.Args[0].(byte)
			nDone[id]++
			if pendingDone[id] == 0 {
				vrt.Fail("order|BatchWriteDone-before-commit", "BatchWriteDone(%d) without a preceding commit of its BatchWrite", id)
			} else {
				pendingDone[id]--
			}
			if stopRet >= 0 && i > stopRet {
				vrt.Fail("late|BatchWriteDone-after-Stop-returned", "BatchWriteDone(%d) after StopBatchWriter returned", id)
			}
		}
	}
	for id := range e.objs {
		if nBW[id] != nDone[id] {
			vrt.Fail("half|BatchWrite-without-Done", "object %d: %d BatchWrite calls but %d BatchWriteDone calls", id, nBW[id], nDone[id])
		}
		val, err := e.store.Get([]byte{id})
		if nBW[id] == 0 {
			if err == nil {
				vrt.Fail("store|value-without-BatchWrite", "object %d is in the store but was never written", id)
			}
			continue
		}
		if err != nil || len(val) != 1 || int32(val[0]) != lastBW[id] {
			vrt.Fail("store|content-differs-from-last-BatchWrite", "object %d: store has %v (err %v), last BatchWrite wrote version %d", id, val, err, lastBW[id])
		}
	}
	// enqueues that returned before Stop was invoked must be written with at least their version
	type call struct {
		id  byte
		ver int32
		pos int
	}
	open := map[string]call{}
	for i, ev := range log {
		if ev.Kind == "enq.call" {
			open[fmt.Sprint(ev.Tid, ev.Args[0])] = call{ev.Args[0].(byte), ev.Args[1].(int32), i}
		}
		if ev.Kind == "enq.ret" && (stopCall < 0 || i < stopCall) {
			c := open[fmt.Sprint(ev.Tid, ev.Args[0])]
			if nBW[c.id] == 0 || lastBW[c.id] < c.ver {
				vrt.Fail("lost|enqueued-before-Stop-not-written", "Enqueue(%d, version %d) returned before StopBatchWriter was invoked but the last BatchWrite wrote version %d (%d writes)", c.id, c.ver, lastBW[c.id], nBW[c.id])
			}
		}
	}
}

func (e *env) stop() {
	vrt.Observe("stop.call")
	e.bw.StopBatchWriter()
	vrt.Observe("stop.ret")
}

func scenarios() []*sched.Scenario {
	var out []*sched.Scenario
	type cfg struct {
		q, b int
		thor bool
	}
	for _, c := range []cfg{{0, 1, false}, {1, 2, false}, {2, 1, true}, {0, 2, true}, {1, 1, true}, {2, 2, true}} {
		c := c
		cn := fmt.Sprintf("q%db%d", c.q, c.b)
		// (A) producers finish, then Stop
		out = append(out, &sched.Scenario{Name: "A-producers-then-stop/" + cn, ThoroughOnly: c.thor, EnvBudget: 1, Run: func() {
			e := newEnv(c.q, c.b)
			vrt.Par(
				func() { e.enqueue(1); e.enqueue(2) },
				func() { e.enqueue(1) },
			)
			e.stop()
			vrt.Quiesce()
			e.check()
		}})
		// (A') with a Flush
		out = append(out, &sched.Scenario{Name: "A-producer-flush-then-stop/" + cn, ThoroughOnly: c.thor, EnvBudget: 1, Run: func() {
			e := newEnv(c.q, c.b)
			vrt.Par(
				func() { e.enqueue(1); e.enqueue(2) },
				func() { e.bw.Flush(); e.enqueue(3) },
			)
			e.stop()
			vrt.Quiesce()
			e.check()
		}})
		// (B) Stop races with a producer
		out = append(out, &sched.Scenario{Name: "B-stop-vs-producer/" + cn, ThoroughOnly: c.thor, EnvBudget: 1, Run: func() {
			e := newEnv(c.q, c.b)
			e.enqueue(1)
			p := vrt.Spawn(func() { e.enqueue(2); e.enqueue(1) })
			e.stop()
			p.Join() // no Enqueue may block forever
			vrt.Quiesce()
			e.check()
		}})
		// (B') the same race with the writer at rest (it has written the first object and waits for more): the producer
		// losing the race must leave nothing behind that keeps the writer - and with it Stop - alive
		out = append(out, &sched.Scenario{Name: "B-stop-vs-producer-writer-idle/" + cn, ThoroughOnly: c.thor, EnvBudget: 1, Run: func() {
			e := newEnv(c.q, c.b)
			e.enqueue(1)
			vrt.Settle()
			p := vrt.Spawn(func() { e.enqueue(2) })
			e.stop()
			p.Join()
			vrt.Quiesce()
			e.check()
		}})
		// (C) two concurrent Stop callers
		out = append(out, &sched.Scenario{Name: "C-two-stops/" + cn, ThoroughOnly: c.thor || c.q != 1, EnvBudget: 1, Run: func() {
			e := newEnv(c.q, c.b)
			e.enqueue(1)
			e.enqueue(2)
			s2 := vrt.Spawn(func() {
				e.bw.StopBatchWriter()
				vrt.Observe("stop.ret")
			})
			e.stop()
			s2.Join()
			vrt.Quiesce()
			e.check()
		}})
	}
	// the store refuses the batch: the writer gives up (it panics by design), but no object may be told that it was
	// persisted - BatchWriteDone only ever follows a successful commit
	out = append(out, &sched.Scenario{Name: "commit-fails-no-done", EnvBudget: 1, QuickMaxBound: 2,
		Check: func(e *vrt.Exec) *sched.Violation {
			committed := false
			for _, ev := range e.Log {
				switch ev.Kind {
				case "commit":
					committed = committed || ev.Args[0].(bool)
				case "done":
					if !committed {
						return &sched.Violation{Signature: "order|BatchWriteDone-after-failed-commit", Message: fmt.Sprintf("BatchWriteDone(%v) was called although the only commit attempt of the batch failed", ev.Args[0])}
					}
				}
			}
			return nil // the writer's panic on a failed commit and the Stop that then never returns are expected here
		},
		Run: func() {
			failCommits = true
			defer func() { failCommits = false }()
			e := newEnv(1, 2)
			e.enqueue(1)
			e.enqueue(2)
			vrt.Quiesce()
		}})
	// a directed four-party schedule (slow object callbacks are user code and may take any time): the writer is busy
	// inside BatchWrite of object 1 while a Flush is requested; a producer of object 2 passes the first running check,
	// Stop is invoked, the producer announces its object, notices the stop and withdraws - and exactly then the writer
	// gets to the pending flush. Nobody may wait for the withdrawn object: Stop returns and object 1 is written and done.
	out = append(out, &sched.Scenario{Name: "D-flush-pending-while-producer-withdraws/q1b2", EnvBudget: 1, QuickMaxBound: 1, Run: func() {
		e := newEnv(1, 2)
		gate := make(chan struct{})
		var stopper vrt.Handle
		e.objs[1].onWrite = func() { vrt.Recv(gate) }
		e.objs[2].onScheduled = func() {
			stopper = vrt.Spawn(e.stop)
			vrt.Settle() // Stop has switched the writer off and waits for it
		}
		e.objs[2].onReset = func() {
			vrt.Close(gate)
			vrt.Settle() // the writer finishes object 1 and serves the flush request while object 2 is still announced
		}
		e.enqueue(1)
		vrt.Settle() // the writer is inside BatchWrite(1)
		e.bw.Flush()
		e.enqueue(2)
		stopper.Join()
		vrt.Quiesce()
		e.check()
	}})
	// a zero batch time-out is legal (the timer fires at once): a batch that is not full must still be committed and
	// Stop must still return
	out = append(out, &sched.Scenario{Name: "A-producers-then-stop/q1b8-timeout0", EnvBudget: 2, QuickMaxBound: 2, Run: func() {
		e := newEnv(1, 8, 0)
		vrt.Par(
			func() { e.enqueue(1); e.enqueue(2) },
			func() { e.enqueue(3) },
		)
		e.stop()
		vrt.Quiesce()
		e.check()
	}})
	return out
}

func main() {
	cli.Main(&cli.Property{
		ID: "C08", Level: "model_checking", Scenarios: scenarios(),
		QuickBound: 2, ThoroughBound: 3, Cache: true, Delay: true, QuickSecs: 40, ThoroughSecs: 900,
		Rule: "every interleaving with at most b deviations (delay bounding; firing the batch time-out early is a deviation) of producers, Flush, StopBatchWriter and the writer goroutine over the real BatchedWriter and mapdb; distinct = distinct (outcome, observation log)",
		Assumptions: []string{
			"vsync/vatomic/channel/timer shims model the Go primitives faithfully (selftest)",
			"the harness object implements BatchWriteScheduled as an atomic test-and-set, like the library's former object-storage users",
		},
		NotReached: []string{"queue/batch sizes above 2", "more than two producers"},
	})
}
