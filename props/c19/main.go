// C19 — safemath returns the exact result or an overflow error, never wraps.
package main

import (
	"encoding/json"
	"errors"
	"fmt"
	"math"
	"math/big"
	"runtime/debug"
	"sort"

	"github.com/iotaledger/hive.go/core/safemath"

	"verif/engine/cli"
)

type rec struct {
	viol    map[string]*cli.Violation
	evals   int64
	nontriv int64 // evaluations whose exact result is not representable (overflow / div by zero expected)
	samples []any
	// deadline reports that the part's time budget is used up (checked once per x); cut records that it happened
	deadline func() bool
	cut      bool
}

func (r *rec) fail(op, typ, kind string, detail string, replay any) {
	sig := op + "|" + typ + "|" + kind
	if r.viol[sig] != nil {
		return
	}
	raw, _ := json.Marshal(replay)
	r.viol[sig] = &cli.Violation{Part: "safemath", Engine: "I", Signature: sig, Message: detail, Replay: raw}
}

// errPanicked marks a call that panicked instead of returning (value, error).
var errPanicked = errors.New("the call panicked")

// guardedDiv is the allocation-free form of guarded for the hot 16-bit loops.
func guardedDiv[T safemath.Integer](r *rec, typ string, x, y T) (v T, err error) {
	defer func() {
		if p := recover(); p != nil {
			r.fail("SafeDiv", typ, "panic", fmt.Sprintf("SafeDiv[%s](%v,%v) panicked instead of returning a result or an error: %v", typ, x, y, p), replayCase{Op: "SafeDiv", Type: typ, X: fmt.Sprint(x), Y: fmt.Sprint(y)})
			err = errPanicked
		}
	}()
	return safemath.SafeDiv(x, y)
}

// guarded runs one library call; a panic is reported once per (operation, type) and turned into errPanicked.
func guarded[T any](r *rec, op, typ string, args []any, f func() (T, error)) (v T, err error) {
	defer func() {
		if p := recover(); p != nil {
			r.fail(op, typ, "panic", fmt.Sprintf("%s[%s]%v panicked instead of returning a result or an error: %v", op, typ, args, p), replayCase{Op: op, Type: typ, X: fmt.Sprint(args[0]), Y: fmt.Sprint(args[1]), Z: fmt.Sprint(args[2:]...)})
			err = errPanicked
		}
	}()
	return f()
}

type replayCase struct {
	Op   string `json:"op"`
	Type string `json:"type"`
	X    string `json:"x"`
	Y    string `json:"y"`
	Z    string `json:"z,omitempty"`
}

// judge compares one result with the exact one (as int64 range values for <= 32 bit, big.Int otherwise).
func judgeSmall[T safemath.Integer](r *rec, op, typ string, x, y int64, exact int64, exactOK bool, divZero bool, got T, err error, lo, hi int64) {
	r.evals++
	rp := replayCase{op, typ, fmt.Sprint(x), fmt.Sprint(y), ""}
	if divZero {
		r.nontriv++
		if !errors.Is(err, safemath.ErrIntegerDivisionByZero) {
			r.fail(op, typ, "missing-division-by-zero-error", fmt.Sprintf("%s[%s](%d,%d) returned %d, %v instead of the division-by-zero error", op, typ, x, y, got, err), rp)
		}
		return
	}
	representable := exactOK && exact >= lo && exact <= hi
	if representable {
		if err != nil {
			r.fail(op, typ, "spurious-error", fmt.Sprintf("%s[%s](%d,%d): the exact result %d is representable but the call returned %v", op, typ, x, y, exact, err), rp)
		} else if int64(got) != exact {
			r.fail(op, typ, "wrong-result", fmt.Sprintf("%s[%s](%d,%d) returned %d, exact result is %d", op, typ, x, y, got, exact), rp)
		}
		return
	}
	r.nontriv++
	if err == nil {
		r.fail(op, typ, "wrapped-result", fmt.Sprintf("%s[%s](%d,%d) returned %d without error, but the exact result does not fit the type", op, typ, x, y, got), rp)
	} else if !errors.Is(err, safemath.ErrIntegerOverflow) {
		r.fail(op, typ, "wrong-error", fmt.Sprintf("%s[%s](%d,%d) returned error %v instead of the overflow error", op, typ, x, y, err), rp)
	}
}

// smallType checks one type of at most 32 bits over the operand list xs x ys (complete ranges for 8/16 bit).
func smallType[T safemath.Integer](r *rec, typ string, bits int, signed bool, xs, ys []int64, shifts bool) {
	var lo, hi int64
	if signed {
		lo, hi = -(1 << (bits - 1)), (1<<(bits-1))-1
	} else {
		lo, hi = 0, (1<<bits)-1
	}
	for _, x := range xs {
		tx := T(x)
		for _, y := range ys {
			ty := T(y)
			g, err := safemath.SafeAdd(tx, ty)
			judgeSmall(r, "SafeAdd", typ, x, y, x+y, true, false, g, err, lo, hi)
			g, err = safemath.SafeSub(tx, ty)
			judgeSmall(r, "SafeSub", typ, x, y, x-y, true, false, g, err, lo, hi)
			g, err = safemath.SafeMul(tx, ty)
			judgeSmall(r, "SafeMul", typ, x, y, x*y, true, false, g, err, lo, hi)
			g, err = guardedDiv(r, typ, tx, ty)
			if y == 0 {
				judgeSmall(r, "SafeDiv", typ, x, y, 0, false, true, g, err, lo, hi)
			} else {
				judgeSmall(r, "SafeDiv", typ, x, y, x/y, true, false, g, err, lo, hi)
			}
		}
		if r.deadline != nil && r.deadline() {
			r.cut = true
			return
		}
		if shifts {
			for s := 0; s < 256; s++ {
				g, err := safemath.SafeLeftShift(tx, uint8(s))
				exactOK := s < 62
				var exact int64
				if exactOK {
					exact = x << uint(s)
					if x != 0 && (exact>>uint(s)) != x {
						exactOK = false
					}
				} else if x == 0 {
					exact, exactOK = 0, true
				}
				judgeSmall(r, "SafeLeftShift", typ, x, int64(s), exact, exactOK, false, g, err, lo, hi)
			}
		}
	}
}

func rng(lo, hi int64) []int64 {
	out := make([]int64, 0, hi-lo+1)
	for v := lo; v <= hi; v++ {
		out = append(out, v)
	}
	return out
}

// boundary alphabet for a type of the given width.
func boundary(bits int, signed bool, rich bool) []*big.Int {
	set := map[string]*big.Int{}
	add := func(v *big.Int) {
		lo, hi := limits(bits, signed)
		if v.Cmp(lo) >= 0 && v.Cmp(hi) <= 0 {
			set[v.String()] = new(big.Int).Set(v)
		}
	}
	lo, hi := limits(bits, signed)
	for _, d := range []int64{0, 1, 2, 3} {
		add(big.NewInt(d))
		add(big.NewInt(-d))
		add(new(big.Int).Add(lo, big.NewInt(d)))
		add(new(big.Int).Sub(hi, big.NewInt(d)))
	}
	step := 1
	if !rich {
		step = 4
	}
	for k := 1; k <= bits; k += step {
		p := new(big.Int).Lsh(big.NewInt(1), uint(k))
		for _, d := range []int64{-1, 0, 1} {
			v := new(big.Int).Add(p, big.NewInt(d))
			add(v)
			add(new(big.Int).Neg(v))
		}
	}
	sq := new(big.Int).Sqrt(hi)
	for _, d := range []int64{-1, 0, 1} {
		v := new(big.Int).Add(sq, big.NewInt(d))
		add(v)
		add(new(big.Int).Neg(v))
	}
	if rich {
		for _, a := range []int64{3, 5, 7, 10, 1000, 65537} {
			q := new(big.Int).Div(hi, big.NewInt(a))
			for _, d := range []int64{-1, 0, 1} {
				v := new(big.Int).Add(q, big.NewInt(d))
				add(v)
				add(new(big.Int).Neg(v))
			}
		}
	}
	var out []*big.Int
	for _, v := range set {
		out = append(out, v)
	}
	sort.Slice(out, func(i, j int) bool { return out[i].Cmp(out[j]) < 0 })
	return out
}

func limits(bits int, signed bool) (*big.Int, *big.Int) {
	if signed {
		hi := new(big.Int).Sub(new(big.Int).Lsh(big.NewInt(1), uint(bits-1)), big.NewInt(1))
		lo := new(big.Int).Neg(new(big.Int).Lsh(big.NewInt(1), uint(bits-1)))
		return lo, hi
	}
	return big.NewInt(0), new(big.Int).Sub(new(big.Int).Lsh(big.NewInt(1), uint(bits)), big.NewInt(1))
}

func judgeBig(r *rec, op, typ string, args []*big.Int, exact *big.Int, divZero bool, got *big.Int, err error, bits int, signed bool) {
	r.evals++
	rp := replayCase{Op: op, Type: typ, X: args[0].String(), Y: args[1].String()}
	if len(args) > 2 {
		rp.Z = args[2].String()
	}
	if divZero {
		r.nontriv++
		if !errors.Is(err, safemath.ErrIntegerDivisionByZero) {
			r.fail(op, typ, "missing-division-by-zero-error", fmt.Sprintf("%s[%s]%v returned %v, %v instead of the division-by-zero error", op, typ, args, got, err), rp)
		}
		return
	}
	lo, hi := limits(bits, signed)
	if exact.Cmp(lo) >= 0 && exact.Cmp(hi) <= 0 {
		if err != nil {
			r.fail(op, typ, "spurious-error", fmt.Sprintf("%s[%s]%v: the exact result %v is representable but the call returned %v", op, typ, args, exact, err), rp)
		} else if got.Cmp(exact) != 0 {
			r.fail(op, typ, "wrong-result", fmt.Sprintf("%s[%s]%v returned %v, exact result is %v", op, typ, args, got, exact), rp)
		}
		return
	}
	r.nontriv++
	if err == nil {
		r.fail(op, typ, "wrapped-result", fmt.Sprintf("%s[%s]%v returned %v without error, but the exact result %v does not fit the type", op, typ, args, got, exact), rp)
	} else if !errors.Is(err, safemath.ErrIntegerOverflow) {
		r.fail(op, typ, "wrong-error", fmt.Sprintf("%s[%s]%v returned error %v instead of the overflow error", op, typ, args, err), rp)
	}
}

func bigOf[T safemath.Integer](v T, signed bool) *big.Int {
	if signed {
		return big.NewInt(int64(v))
	}
	return new(big.Int).SetUint64(uint64(v))
}

func fromBig[T safemath.Integer](b *big.Int, signed bool) T {
	if signed {
		return T(b.Int64())
	}
	return T(b.Uint64())
}

func quot(x, y *big.Int) *big.Int { return new(big.Int).Quo(x, y) } // truncated like Go

// wideType checks a 32/64-bit type over the complete cross product of the boundary alphabet.
func wideType[T safemath.Integer](r *rec, typ string, bits int, signed bool, rich bool, shard, nshards int) {
	al := boundary(bits, signed, rich)
	for i, bx := range al {
		if i%nshards != shard {
			continue
		}
		x := fromBig[T](bx, signed)
		for _, by := range al {
			y := fromBig[T](by, signed)
			args := []*big.Int{bx, by}
			g, err := safemath.SafeAdd(x, y)
			judgeBig(r, "SafeAdd", typ, args, new(big.Int).Add(bx, by), false, bigOf(g, signed), err, bits, signed)
			g, err = safemath.SafeSub(x, y)
			judgeBig(r, "SafeSub", typ, args, new(big.Int).Sub(bx, by), false, bigOf(g, signed), err, bits, signed)
			g, err = safemath.SafeMul(x, y)
			judgeBig(r, "SafeMul", typ, args, new(big.Int).Mul(bx, by), false, bigOf(g, signed), err, bits, signed)
			g, err = guarded(r, "SafeDiv", typ, []any{bx, by}, func() (T, error) { return safemath.SafeDiv(x, y) })
			if by.Sign() == 0 {
				judgeBig(r, "SafeDiv", typ, args, nil, true, bigOf(g, signed), err, bits, signed)
			} else {
				judgeBig(r, "SafeDiv", typ, args, quot(bx, by), false, bigOf(g, signed), err, bits, signed)
			}
		}
		for s := 0; s < 256; s++ {
			g, err := safemath.SafeLeftShift(x, uint8(s))
			judgeBig(r, "SafeLeftShift", typ, []*big.Int{bx, big.NewInt(int64(s))}, new(big.Int).Lsh(bx, uint(s)), false, bigOf(g, signed), err, bits, signed)
		}
	}
}

func special64(r *rec, rich bool, shard, nshards int) {
	au := boundary(64, false, rich)
	as := boundary(64, true, rich)
	for i, bx := range au {
		if i%nshards != shard {
			continue
		}
		for _, by := range au {
			g, err := safemath.SafeMulUint64(bx.Uint64(), by.Uint64())
			judgeBig(r, "SafeMulUint64", "uint64", []*big.Int{bx, by}, new(big.Int).Mul(bx, by), false, new(big.Int).SetUint64(g), err, 64, false)
			for _, bz := range au {
				g, err := guarded(r, "Safe64MulDiv", "uint64", []any{bx, by, bz}, func() (uint64, error) { return safemath.Safe64MulDiv(bx.Uint64(), by.Uint64(), bz.Uint64()) })
				if bz.Sign() == 0 {
					judgeBig(r, "Safe64MulDiv", "uint64", []*big.Int{bx, by, bz}, nil, true, new(big.Int).SetUint64(g), err, 64, false)
				} else {
					judgeBig(r, "Safe64MulDiv", "uint64", []*big.Int{bx, by, bz}, quot(new(big.Int).Mul(bx, by), bz), false, new(big.Int).SetUint64(g), err, 64, false)
				}
			}
		}
	}
	for i, bx := range as {
		if i%nshards != shard {
			continue
		}
		for _, by := range as {
			g, err := safemath.SafeMulInt64(bx.Int64(), by.Int64())
			judgeBig(r, "SafeMulInt64", "int64", []*big.Int{bx, by}, new(big.Int).Mul(bx, by), false, big.NewInt(g), err, 64, true)
		}
	}
}

func run(c *cli.Ctx, what string) (pr *cli.PartResult) {
	r := &rec{viol: map[string]*cli.Violation{}, deadline: c.Expired}
	defer func() {
		if p := recover(); p != nil { // a panic of an unguarded operation ends this shard's enumeration, but is reported
			r.fail("safemath", what, "panic", fmt.Sprintf("an operation panicked instead of returning a result or an error: %v\n%s", p, debug.Stack()), replayCase{Op: "safemath", Type: what})
			pr = &cli.PartResult{Engine: "I", Evaluations: r.evals, Distinct: r.nontriv, Exhaustive: false}
			for _, v := range r.viol {
				pr.Violations = append(pr.Violations, v)
			}
		}
	}()
	exhaustive := true
	var notes []string
	switch what {
	case "8bit":
		smallType[int8](r, "int8", 8, true, rng(-128, 127), rng(-128, 127), true)
		smallType[uint8](r, "uint8", 8, false, rng(0, 255), rng(0, 255), true)
		notes = append(notes, "all 65536 operand pairs per operation and all 256x256 (value, shift) pairs, both 8-bit types")
	case "16bit":
		// complete: x ranges over this shard's slice, y over the whole range
		lo, hi := int64(-32768), int64(32767)
		var xs, xu []int64
		for v := lo; v <= hi; v++ {
			if int(v-lo)%c.NShards == c.Shard {
				xs = append(xs, v)
				xu = append(xu, v-lo)
			}
		}
		if c.Thorough() {
			smallType[int16](r, "int16", 16, true, xs, rng(lo, hi), true)
			smallType[uint16](r, "uint16", 16, false, xu, rng(0, 65535), true)
			notes = append(notes, "all 2^32 operand pairs per operation for int16 and uint16, all (value, shift) pairs")
		} else {
			// quick: every x against a boundary alphabet of y and vice versa, plus all shifts
			var bs, bu []int64
			for _, b := range boundary(16, true, true) {
				bs = append(bs, b.Int64())
			}
			for _, b := range boundary(16, false, true) {
				bu = append(bu, b.Int64())
			}
			smallType[int16](r, "int16", 16, true, xs, bs, true)
			smallType[int16](r, "int16", 16, true, bs, xs, false)
			smallType[uint16](r, "uint16", 16, false, xu, bu, true)
			smallType[uint16](r, "uint16", 16, false, bu, xu, false)
			notes = append(notes, "16-bit: every value against the boundary alphabet in both operand positions, all (value, shift) pairs; the complete 2^32 product runs in the thorough tier")
			exhaustive = false
		}
	case "wide":
		rich := c.Thorough()
		wideType[int32](r, "int32", 32, true, true, c.Shard, c.NShards)
		wideType[uint32](r, "uint32", 32, false, true, c.Shard, c.NShards)
		wideType[int64](r, "int64", 64, true, true, c.Shard, c.NShards)
		wideType[uint64](r, "uint64", 64, false, true, c.Shard, c.NShards)
		special64(r, rich, c.Shard, c.NShards)
		notes = append(notes, fmt.Sprintf("32/64-bit: complete cross product of the boundary alphabet (%d / %d / %d / %d values), all shifts 0..255; MulDiv triples over %d values", len(boundary(32, true, true)), len(boundary(32, false, true)), len(boundary(64, true, true)), len(boundary(64, false, true)), len(boundary(64, false, rich))))
		exhaustive = false
	}
	if r.cut {
		exhaustive = false
		notes = append(notes, "the time budget of this work item ran out: the enumeration was cut (evaluations counts what was covered)")
	}
	pr = &cli.PartResult{Engine: "I", Evaluations: r.evals, Distinct: r.nontriv, States: 0, Exhaustive: exhaustive, Notes: notes}
	pr.Samples = []any{fmt.Sprintf("%s shard %d/%d: %d evaluations, %d of them with a non-representable exact result", what, c.Shard, c.NShards, r.evals, r.nontriv),
		"SafeMul[int8](-1,-128) exact=128 -> must be overflow", "SafeLeftShift[uint8](3,7) exact=384 -> must be overflow", "Safe64MulDiv(2^63,2,2^64-1)"}
	var sigs []string
	for s := range r.viol {
		sigs = append(sigs, s)
	}
	sort.Strings(sigs)
	for _, s := range sigs {
		pr.Violations = append(pr.Violations, r.viol[s])
	}
	_ = math.MaxInt64
	return pr
}

func replay(raw json.RawMessage) (string, string, error) {
	var rc replayCase
	if err := json.Unmarshal(raw, &rc); err != nil {
		return "", "", err
	}
	// re-run the complete small spaces and the wide alphabet and report whether the class still occurs
	r := &rec{viol: map[string]*cli.Violation{}}
	smallType[int8](r, "int8", 8, true, rng(-128, 127), rng(-128, 127), true)
	smallType[uint8](r, "uint8", 8, false, rng(0, 255), rng(0, 255), true)
	wideType[int32](r, "int32", 32, true, true, 0, 1)
	wideType[uint32](r, "uint32", 32, false, true, 0, 1)
	wideType[int64](r, "int64", 64, true, true, 0, 1)
	wideType[uint64](r, "uint64", 64, false, true, 0, 1)
	special64(r, false, 0, 1)
	for sig, v := range r.viol {
		var c2 replayCase
		_ = json.Unmarshal(v.Replay, &c2)
		if c2.Op == rc.Op && c2.Type == rc.Type {
			return sig + ": " + v.Message, fmt.Sprintf("case %+v", rc), nil
		}
	}
	return "", fmt.Sprintf("case %+v no longer fails", rc), nil
}

func main() {
	parts := []*cli.Part{
		{Name: "8bit", Run: func(c *cli.Ctx) *cli.PartResult { return run(c, "8bit") }, Replay: replay},
		{Name: "16bit", Run: func(c *cli.Ctx) *cli.PartResult { return run(c, "16bit") }, Replay: replay, Shards: 16, ShardsQuick: 4},
		{Name: "wide", Run: func(c *cli.Ctx) *cli.PartResult { return run(c, "wide") }, Replay: replay, Shards: 16, ShardsQuick: 8},
	}
	cli.Main(&cli.Property{
		ID: "C19", Level: "exploration", Parts: parts, QuickSecs: 60, ThoroughSecs: 1800,
		Rule:        "complete enumeration of operand spaces against exact arithmetic (int64 for <=16 bit, math/big above): all pairs of the 8-bit types (thorough: of the 16-bit types too), all (value, shift 0..255) pairs, and the complete cross product of a boundary alphabet (0, +-1..3, min/max +-3, +-2^k and +-2^k+-1 for every k, sqrt(max)+-1, max/a+-1) for 32/64-bit types, SafeMulUint64, SafeMulInt64 and (triples) Safe64MulDiv; distinct_nontrivial = evaluations whose exact result is not representable (an error is required)",
		Assumptions: []string{"math/big and int64 arithmetic are the reference"},
		NotReached:  []string{"the full 2^64 x 2^64 operand space (boundary alphabet only)", "named integer types other than the eight basic ones"},
	})
}
