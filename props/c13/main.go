// C13 — reactive subscribers see every change exactly once, in order.
package main

import (
	"fmt"
	"sort"

	"github.com/iotaledger/hive.go/ds"
	"github.com/iotaledger/hive.go/ds/reactive"

	"verif/engine/cli"
	"verif/engine/sched"
	"verif/vrt"
)

// ---- variable subscriptions ----

type varSub struct {
	name     string
	entries  [][2]int
	inCb     bool
	unsubbed bool // unsubscribe call has returned
}

func (s *varSub) cb(prev, next int) {
	if s.unsubbed {
		vrt.Fail("callback-after-unsubscribe|"+s.name, "a callback of subscription %s started after its unsubscribe call had returned (%d -> %d)", s.name, prev, next)
	}
	if s.inCb {
		vrt.Fail("callbacks-overlap|"+s.name, "two callbacks of subscription %s run concurrently", s.name)
	}
	s.inCb = true
	vrt.Observe("cb", s.name, prev, next)
	s.entries = append(s.entries, [2]int{prev, next})
	vrt.Yield() // give a concurrent callback of the same subscription the chance to overlap
	s.inCb = false
}

// check: chain of (prev,new) pairs; first prev must be the zero value; last new == final (if still subscribed)
func (s *varSub) check(final int, stillSubscribed bool) {
	for i, e := range s.entries {
		if i == 0 {
			if e[0] != 0 {
				vrt.Fail("first-callback-prev|"+s.name, "first callback of %s reports previous value %d (entries %v)", s.name, e[0], s.entries)
			}
			continue
		}
		if e[0] != s.entries[i-1][1] {
			vrt.Fail("chain-broken|"+s.name, "subscription %s: callback %d reports previous value %d but the preceding callback's new value was %d (entries %v)", s.name, i, e[0], s.entries[i-1][1], s.entries)
		}
	}
	if stillSubscribed {
		last := 0
		if n := len(s.entries); n > 0 {
			last = s.entries[n-1][1]
		}
		if last != final {
			vrt.Fail("last-value|"+s.name, "subscription %s last saw %d but the final value is %d (entries %v)", s.name, last, final, s.entries)
		}
	}
}

// ---- set subscriptions ----

type setSub struct {
	name     string
	state    map[int]bool
	log      []string
	inCb     bool
	unsubbed bool
}

func newSetSub(name string) *setSub { return &setSub{name: name, state: map[int]bool{}} }

func (s *setSub) cb(m ds.SetMutations[int]) {
	if s.unsubbed {
		vrt.Fail("callback-after-unsubscribe|"+s.name, "a callback of set subscription %s started after its unsubscribe call had returned", s.name)
	}
	if s.inCb {
		vrt.Fail("callbacks-overlap|"+s.name, "two callbacks of set subscription %s run concurrently", s.name)
	}
	s.inCb = true
	a, d := m.AddedElements().ToSlice(), m.DeletedElements().ToSlice()
	vrt.Observe("cb", s.name, fmt.Sprint(a), fmt.Sprint(d))
	s.log = append(s.log, fmt.Sprintf("+%v-%v", a, d))
	for _, e := range a {
		s.state[e] = true
	}
	for _, e := range d {
		delete(s.state, e)
	}
	vrt.Yield()
	s.inCb = false
}

func (s *setSub) check(final []int) {
	var got []int
	for e := range s.state {
		got = append(got, e)
	}
	sort.Ints(got)
	want := append([]int{}, final...)
	sort.Ints(want)
	if fmt.Sprint(got) != fmt.Sprint(want) {
		vrt.Fail("fold-mismatch|"+s.name, "folding the mutations reported to %s (%v) gives %v, the set contains %v", s.name, s.log, got, want)
	}
}

func scenarios() []*sched.Scenario {
	var out []*sched.Scenario
	out = append(out, &sched.Scenario{Name: "variable/2writers+late-subscriber", Run: func() {
		v := reactive.NewVariable[int]()
		a, b := &varSub{name: "A"}, &varSub{name: "B"}
		v.OnUpdate(a.cb)
		vrt.Par(
			func() { v.Set(1) },
			func() { v.Compute(func(c int) int { return c + 2 }) },
			func() {
				u := v.OnUpdate(b.cb)
				vrt.Yield()
				u()
				b.unsubbed = true
			},
		)
		vrt.Quiesce()
		final := v.Get()
		vrt.Observe("final", final)
		a.check(final, true)
		b.check(final, false)
		if final != 3 && final != 1 { // Set;Compute = 3, Compute;Set = 1
			vrt.Fail("lost-update", "Set(1) || Compute(+2) ended with %d, serial orders give 3 or 1", final)
		}
	}})
	out = append(out, &sched.Scenario{Name: "variable/initialised+subscribe-unsubscribe-vs-sets", Run: func() {
		v := reactive.NewVariable[int]().Init(5)
		a, b := &varSub{name: "A"}, &varSub{name: "B"}
		vrt.Par(
			func() {
				u := v.OnUpdate(b.cb)
				u()
				b.unsubbed = true
			},
			func() { v.Set(1) },
			func() { v.OnUpdate(a.cb); v.Set(2) },
		)
		vrt.Quiesce()
		final := v.Get()
		vrt.Observe("final", final)
		a.check(final, true)
		b.check(final, false)
	}})
	// a variable with a transformation function (clamp to 100): what subscribers are told must be what is stored
	out = append(out, &sched.Scenario{Name: "variable/transformation-clamp", Run: func() {
		v := reactive.NewVariable[int](func(_ int, n int) int {
			if n > 100 {
				return 100
			}
			return n
		})
		a, b := &varSub{name: "A"}, &varSub{name: "B"}
		v.OnUpdate(a.cb)
		v.Set(10)
		vrt.Par(
			func() { v.Set(150) },
			func() { v.Compute(func(c int) int { return c + 95 }) },
		)
		v.OnUpdate(b.cb)
		v.Set(50)
		vrt.Quiesce()
		final := v.Get()
		vrt.Observe("final", final)
		a.check(final, true)
		b.check(final, true)
	}})
	// three parties: a writer, the unsubscribing of an EARLIER subscriber, and a later subscriber that stays and must
	// still see every change (the writer walks the callback list while the earlier entry is being removed)
	out = append(out, &sched.Scenario{Name: "variable/earlier-subscriber-leaves-during-update", Run: func() {
		v := reactive.NewVariable[int]()
		a, b, c := &varSub{name: "A"}, &varSub{name: "B"}, &varSub{name: "C"}
		ua := v.OnUpdate(a.cb)
		ub := v.OnUpdate(b.cb)
		v.OnUpdate(c.cb)
		vrt.Par(
			func() { v.Set(1); v.Set(2) },
			func() { ua(); a.unsubbed = true },
			func() { ub(); b.unsubbed = true },
		)
		vrt.Quiesce()
		final := v.Get()
		vrt.Observe("final", final)
		a.check(final, false)
		b.check(final, false)
		c.check(final, true)
	}})
	// OnUpdateWithContext: inner subscriptions made through withinContext live until the next update or the unsubscribe;
	// once the unsubscribe call has returned, nothing set up by it may still be subscribed or start
	out = append(out, &sched.Scenario{Name: "variable/onupdatewithcontext-unsubscribe-vs-set", Run: func() {
		v := reactive.NewVariable[int]()
		other := reactive.NewVariable[int]()
		setups, teardowns, unsubReturned, innerAfter := 0, 0, false, 0
		v.Set(1)
		u := v.OnUpdateWithContext(func(_, _ int, within func(func() func())) {
			within(func() func() {
				setups++
				inner := other.OnUpdate(func(_, _ int) {
					if unsubReturned {
						innerAfter++
					}
				})
				return func() { inner(); teardowns++ }
			})
		})
		vrt.Par(
			func() { u(); unsubReturned = true },
			func() { v.Set(2) },
		)
		other.Set(5)
		vrt.Quiesce()
		vrt.Observe("final", setups, teardowns, innerAfter)
		if setups != teardowns {
			vrt.Fail("context-leak", "OnUpdateWithContext set up %d inner subscriptions but tore down %d after its unsubscribe returned", setups, teardowns)
		}
		if innerAfter != 0 {
			vrt.Fail("callback-after-unsubscribe|inner", "an inner subscription created within the context was still invoked after the unsubscribe call had returned")
		}
	}})
	// an unsubscribe function called a second time (explicitly and again by a deferred clean-up) is a no-op: whoever
	// subscribed in between - right behind the subscription that left - keeps getting every update
	out = append(out, &sched.Scenario{Name: "variable/unsubscribe-twice-keeps-later-subscribers", Run: func() {
		v := reactive.NewVariable[int]()
		a, b, c := &varSub{name: "A"}, &varSub{name: "B"}, &varSub{name: "C"}
		v.OnUpdate(a.cb)
		ub := v.OnUpdate(b.cb)
		ub()
		b.unsubbed = true
		v.OnUpdate(c.cb)
		vrt.Par(
			func() { ub() },
			func() { v.Set(1); v.Set(2) },
		)
		vrt.Quiesce()
		final := v.Get()
		vrt.Observe("final", final)
		a.check(final, true)
		c.check(final, true)
	}})
	out = append(out, &sched.Scenario{Name: "set/only-subscriber-unsubscribes-twice-then-new-subscriber", Run: func() {
		s := reactive.NewSet[int]()
		a, b := newSetSub("A"), newSetSub("B")
		ua := s.OnUpdate(a.cb)
		ua()
		ua()
		a.unsubbed = true
		vrt.Par(
			func() { s.OnUpdate(b.cb) },
			func() { s.Add(1); s.Add(2) },
		)
		vrt.Quiesce()
		final := s.ToSlice()
		vrt.Observe("final", fmt.Sprint(final))
		b.check(final)
	}})
	out = append(out, &sched.Scenario{Name: "variable/zero-value-trigger+same-value-set", Run: func() {
		v := reactive.NewVariable[int]()
		a := &varSub{name: "A"}
		vrt.Par(
			func() { v.OnUpdate(a.cb, true) },
			func() { v.Set(1); v.Set(1) },
			func() { v.Set(0) },
		)
		vrt.Quiesce()
		final := v.Get()
		vrt.Observe("final", final)
		a.check(final, true)
		for i := 1; i < len(a.entries); i++ {
			if a.entries[i][0] == a.entries[i][1] {
				vrt.Fail("no-change-callback|A", "a callback reported no change: %v", a.entries)
			}
		}
	}})
	out = append(out, &sched.Scenario{Name: "event/trigger-vs-ontrigger", Run: func() {
		e := reactive.NewEvent()
		n1, n2, n3 := 0, 0, 0
		e.OnTrigger(func() { n1++ })
		vrt.Par(
			func() { e.Trigger() },
			func() { e.OnTrigger(func() { n2++ }) },
			func() { e.Trigger(); e.OnTrigger(func() { n3++ }) },
		)
		vrt.Quiesce()
		vrt.Observe("counts", n1, n2, n3)
		if n1 != 1 || n2 != 1 || n3 != 1 {
			vrt.Fail("event-callback-count", "OnTrigger callbacks ran %d/%d/%d times, each must run exactly once", n1, n2, n3)
		}
		if !e.WasTriggered() {
			vrt.Fail("event-not-triggered", "WasTriggered is false after Trigger")
		}
	}})
	out = append(out, &sched.Scenario{Name: "event/unsubscribed-handler-never-runs-late", Run: func() {
		e := reactive.NewEvent()
		s := &varSub{name: "H"}
		vrt.Par(
			func() {
				u := e.OnTrigger(func() { s.cb(0, 1) })
				u()
				s.unsubbed = true
			},
			func() { e.Trigger() },
		)
		vrt.Quiesce()
		if len(s.entries) > 1 {
			vrt.Fail("event-callback-count", "handler ran %d times", len(s.entries))
		}
	}})
	out = append(out, &sched.Scenario{Name: "set/add-apply+late-subscriber", Run: func() {
		s := reactive.NewSet[int]()
		a, b := newSetSub("A"), newSetSub("B")
		s.OnUpdate(a.cb)
		vrt.Par(
			func() { s.Add(1) },
			func() {
				s.Apply(ds.NewSetMutations[int]().WithAddedElements(ds.NewSet(2)).WithDeletedElements(ds.NewSet(1)))
			},
			func() { s.OnUpdate(b.cb) },
		)
		vrt.Quiesce()
		final := s.ToSlice()
		vrt.Observe("final", fmt.Sprint(final))
		a.check(final)
		b.check(final)
	}})
	// one mutation naming the same element as added and as deleted (absent before, present before), racing a writer
	out = append(out, &sched.Scenario{Name: "set/overlapping-mutation+subscribers", Run: func() {
		s := reactive.NewSet[int]()
		s.Add(2)
		a, b := newSetSub("A"), newSetSub("B")
		s.OnUpdate(a.cb)
		vrt.Par(
			func() {
				s.Apply(ds.NewSetMutations[int]().WithAddedElements(ds.NewSet(1, 2)).WithDeletedElements(ds.NewSet(1, 2)))
			},
			func() { s.Add(3) },
			func() { s.OnUpdate(b.cb) },
		)
		vrt.Quiesce()
		final := s.ToSlice()
		vrt.Observe("final", fmt.Sprint(final))
		a.check(final)
		b.check(final)
	}})
	// a subscriber of a DERIVED set that is written through two sources (and directly): same ordering guarantees
	out = append(out, &sched.Scenario{Name: "derivedset/two-source-writers+subscribers", QuickMaxBound: 1, Run: func() {
		s1, s2 := reactive.NewSet[int](), reactive.NewSet[int]()
		d := reactive.NewDerivedSet[int]()
		d.InheritFrom(s1, s2)
		a, b := newSetSub("A"), newSetSub("B")
		d.OnUpdate(a.cb)
		vrt.Par(
			func() { s1.Add(1); s1.Delete(1) },
			func() { s2.Add(1); s2.Add(2) },
			func() { d.OnUpdate(b.cb) },
		)
		vrt.Quiesce()
		final := d.ToSlice()
		vrt.Observe("final", fmt.Sprint(final))
		a.check(final)
		b.check(final)
	}})
	out = append(out, &sched.Scenario{Name: "set/replace-add+subscribers", Run: func() {
		s := reactive.NewSet[int]()
		s.Add(1)
		s.Add(2)
		a, b := newSetSub("A"), newSetSub("B")
		s.OnUpdate(a.cb)
		vrt.Par(
			func() { s.Replace(ds.NewSet(2, 3)) },
			func() { s.Add(4) },
			func() { s.OnUpdate(b.cb) },
		)
		vrt.Quiesce()
		final := s.ToSlice()
		vrt.Observe("final", fmt.Sprint(final))
		a.check(final)
		b.check(final)
	}})
	out = append(out, &sched.Scenario{Name: "set/compute-delete+unsubscribe", Run: func() {
		s := reactive.NewSet[int]()
		s.Add(1)
		a, b := newSetSub("A"), newSetSub("B")
		s.OnUpdate(a.cb)
		vrt.Par(
			func() {
				s.Compute(func(r ds.ReadableSet[int]) ds.SetMutations[int] {
					if r.Has(1) {
						return ds.NewSetMutations[int](2)
					}
					return ds.NewSetMutations[int](3)
				})
			},
			func() { s.Delete(1) },
			func() {
				u := s.OnUpdate(b.cb)
				u()
				b.unsubbed = true
			},
		)
		vrt.Quiesce()
		final := s.ToSlice()
		vrt.Observe("final", fmt.Sprint(final))
		a.check(final)
	}})
	return out
}

func main() {
	cli.Main(&cli.Property{
		ID: "C13", Level: "model_checking", Scenarios: scenarios(),
		QuickBound: 2, ThoroughBound: 3, ThoroughUnbounded: true, Cache: true, QuickSecs: 45, ThoroughSecs: 900,
		RaceHB: &cli.RaceHB{QuickBound: 1, ThoroughBound: 2},
		Rule:        "every interleaving with at most b preemptions (thorough: all interleavings where the state cache completes) of concurrent writers (Set/Compute/Add/Apply/Replace/Delete/Trigger), subscribers (OnUpdate/OnTrigger, with and without the zero-value trigger) and unsubscribers on the real reactive Variable, Event and Set; callbacks yield so that overlapping executions are possible; oracle per subscription: first callback starts from the zero value, prev/new chain unbroken, last new == final value, folding the set mutations == final contents, no overlap, no callback after unsubscribe returned; distinct = distinct (outcome, observation log)",
		Assumptions: []string{"set mutations are folded with add-then-delete semantics; an element reported as added although already present is tolerated by the fold"},
		NotReached:  []string{"more than 3 concurrent actors", "OnUpdateOnce / OnUpdateWithContext / WithValue helpers"},
	})
}
