//go:build vnative

package vsync

import "sync"

type (
	Locker    = sync.Locker
	Pool      = sync.Pool
	Map       = sync.Map
	Mutex     = sync.Mutex
	RWMutex   = sync.RWMutex
	Cond      = sync.Cond
	WaitGroup = sync.WaitGroup
	Once      = sync.Once
)

func NewCond(l Locker) *Cond   { return sync.NewCond(l) }
func OnceFunc(f func()) func() { return sync.OnceFunc(f) }
