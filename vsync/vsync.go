//go:build !vnative

// Package vsync is the controlled replacement of package sync (build tag
// vnative selects plain aliases instead, used by the free-running race pass).
package vsync

import (
	"sync"
	"unsafe"

	"verif/vrace"
	"verif/vrt"
)

type Locker = sync.Locker

// Pool and Map are not scheduling relevant for the code in scope.
type Pool = sync.Pool
type Map = sync.Map

type hdr struct {
	gen    uint32
	id     int
	inited bool
}

// race detector tokens of a primitive (two distinct addresses inside its header); the edges reported are the ones
// package sync reports for the real primitives
func (h *hdr) tokA() unsafe.Pointer { return unsafe.Pointer(&h.gen) }
func (h *hdr) tokB() unsafe.Pointer { return unsafe.Pointer(&h.id) }

func (h *hdr) fresh() bool {
	g := vrt.Gen()
	if !h.inited || h.gen != g {
		h.inited = true
		h.gen = g
		h.id = vrt.NewObj()
		return true
	}
	return false
}

// Mutex -------------------------------------------------------------------

type Mutex struct {
	h      hdr
	locked bool
	holder int
}

func (m *Mutex) init() {
	if m.h.fresh() {
		m.locked = false
	}
}

func (m *Mutex) Lock() {
	m.init()
	vrt.Point("mutex.lock", m.h.id, func() bool { return !m.locked })
	m.init()
	m.locked = true
	m.holder = vrt.Tid()
	vrt.Touch(m.h.id, true, 1)
	vrace.Acquire(m.h.tokA())
}

func (m *Mutex) TryLock() bool {
	m.init()
	vrt.Point("mutex.trylock", m.h.id, nil)
	m.init()
	if m.locked {
		vrt.Touch(m.h.id, false, 2)
		return false
	}
	m.locked = true
	m.holder = vrt.Tid()
	vrt.Touch(m.h.id, true, 1)
	vrace.Acquire(m.h.tokA())
	return true
}

func (m *Mutex) Unlock() {
	m.init()
	if vrt.Aborting() {
		m.locked = false
		return
	}
	if !m.locked {
		panic("sync: unlock of unlocked mutex")
	}
	vrace.Release(m.h.tokA())
	m.locked = false
	vrt.Touch(m.h.id, true, 3)
	vrt.Released("mutex.unlocked", m.h.id)
}

// RWMutex (writer preferring, like the runtime's) -----------------------------

type RWMutex struct {
	h         hdr
	readers   int
	announced bool // a writer has announced itself (holds the internal writer mutex)
	writer    bool // the writer holds the lock
}

func (m *RWMutex) init() {
	if m.h.fresh() {
		m.readers, m.announced, m.writer = 0, false, false
	}
}

func (m *RWMutex) Lock() {
	m.init()
	vrt.Point("rw.lock", m.h.id, func() bool { return !m.announced })
	m.init()
	m.announced = true
	vrt.Touch(m.h.id, true, 4)
	if m.readers != 0 {
		vrt.Point("rw.lock.acquire", m.h.id, func() bool { return m.readers == 0 })
	}
	m.writer = true
	vrt.Touch(m.h.id, true, 5)
	vrace.Acquire(m.h.tokA())
	vrace.Acquire(m.h.tokB())
}

func (m *RWMutex) TryLock() bool {
	m.init()
	vrt.Point("rw.trylock", m.h.id, nil)
	m.init()
	if m.announced || m.readers != 0 {
		vrt.Touch(m.h.id, false, 6)
		return false
	}
	m.announced, m.writer = true, true
	vrt.Touch(m.h.id, true, 5)
	vrace.Acquire(m.h.tokA())
	vrace.Acquire(m.h.tokB())
	return true
}

func (m *RWMutex) Unlock() {
	m.init()
	if vrt.Aborting() {
		m.announced, m.writer = false, false
		return
	}
	if !m.writer {
		panic("sync: Unlock of unlocked RWMutex")
	}
	vrace.Release(m.h.tokA())
	m.announced, m.writer = false, false
	vrt.Touch(m.h.id, true, 7)
	vrt.Released("rw.unlocked", m.h.id)
}

func (m *RWMutex) RLock() {
	m.init()
	vrt.Point("rw.rlock", m.h.id, func() bool { return !m.announced })
	m.init()
	m.readers++
	vrt.Touch(m.h.id, true, 8)
	vrace.Acquire(m.h.tokA())
}

func (m *RWMutex) TryRLock() bool {
	m.init()
	vrt.Point("rw.tryrlock", m.h.id, nil)
	m.init()
	if m.announced {
		vrt.Touch(m.h.id, false, 9)
		return false
	}
	m.readers++
	vrt.Touch(m.h.id, true, 8)
	vrace.Acquire(m.h.tokA())
	return true
}

func (m *RWMutex) RUnlock() {
	m.init()
	if vrt.Aborting() {
		if m.readers > 0 {
			m.readers--
		}
		return
	}
	if m.readers <= 0 {
		panic("sync: RUnlock of unlocked RWMutex")
	}
	vrace.ReleaseMerge(m.h.tokB())
	m.readers--
	vrt.Touch(m.h.id, true, 10)
	vrt.Released("rw.runlocked", m.h.id)
}

type rlocker RWMutex

func (r *rlocker) Lock()   { (*RWMutex)(r).RLock() }
func (r *rlocker) Unlock() { (*RWMutex)(r).RUnlock() }

func (m *RWMutex) RLocker() Locker { return (*rlocker)(m) }

// Cond ------------------------------------------------------------------------

type condWaiter struct {
	tid      int
	signaled bool
}

type Cond struct {
	L       Locker
	h       hdr
	waiters []*condWaiter
}

func NewCond(l Locker) *Cond { return &Cond{L: l} }

func (c *Cond) init() {
	if c.h.fresh() {
		c.waiters = nil
	}
}

func (c *Cond) Wait() {
	c.init()
	vrt.Point("cond.wait.enqueue", c.h.id, nil)
	c.init()
	w := &condWaiter{tid: vrt.Tid()}
	c.waiters = append(c.waiters, w)
	vrt.Touch(c.h.id, true, 11)
	c.L.Unlock()
	vrt.Point("cond.wait", c.h.id, func() bool { return w.signaled })
	vrt.Touch(c.h.id, true, 12)
	c.L.Lock()
}

func (c *Cond) Signal() {
	c.init()
	if vrt.Aborting() {
		return
	}
	vrt.Point("cond.signal", c.h.id, nil)
	c.init()
	if len(c.waiters) > 0 {
		c.waiters[0].signaled = true
		c.waiters = c.waiters[1:]
	}
	vrt.Touch(c.h.id, true, 13)
}

func (c *Cond) Broadcast() {
	c.init()
	if vrt.Aborting() {
		return
	}
	vrt.Point("cond.broadcast", c.h.id, nil)
	c.init()
	for _, w := range c.waiters {
		w.signaled = true
	}
	c.waiters = nil
	vrt.Touch(c.h.id, true, 14)
}

// WaitGroup -------------------------------------------------------------------

type WaitGroup struct {
	h hdr
	n int
}

func (w *WaitGroup) init() {
	if w.h.fresh() {
		w.n = 0
	}
}

func (w *WaitGroup) Add(delta int) {
	w.init()
	if vrt.Aborting() {
		return
	}
	if delta > 0 {
		vrt.Point("wg.add", w.h.id, nil)
		w.init()
	}
	if delta < 0 {
		vrace.ReleaseMerge(w.h.tokA())
	}
	w.n += delta
	if w.n < 0 {
		panic("sync: negative WaitGroup counter")
	}
	vrt.Touch(w.h.id, true, uint64(int64(delta))+15)
}

func (w *WaitGroup) Done() { w.Add(-1) }

func (w *WaitGroup) Wait() {
	w.init()
	vrt.Point("wg.wait", w.h.id, func() bool { return w.n == 0 })
	vrt.Touch(w.h.id, true, 16)
	vrace.Acquire(w.h.tokA())
}

// Once ------------------------------------------------------------------------

type Once struct {
	h       hdr
	done    bool
	running bool
}

func (o *Once) init() {
	if o.h.fresh() {
		o.done, o.running = false, false
	}
}

func (o *Once) Do(f func()) {
	o.init()
	vrt.Point("once.do", o.h.id, func() bool { return !o.running })
	o.init()
	if o.done {
		vrt.Touch(o.h.id, false, 17)
		vrace.Acquire(o.h.tokA())
		return
	}
	o.running = true
	vrt.Touch(o.h.id, true, 18)
	defer func() {
		vrace.ReleaseMerge(o.h.tokA())
		o.running = false
		o.done = true
		vrt.Touch(o.h.id, true, 19)
	}()
	f()
}

func OnceFunc(f func()) func() {
	var o Once
	return func() { o.Do(f) }
}
