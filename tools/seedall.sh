#!/bin/bash
# usage: tools/seedall.sh <seed-dir>...   runs tools/seedtest.sh for each, one summary line per seed
# SEEDTEST_CHECK_ONLY=1 skips the module tests and the demonstration (already confirmed) and only runs the checks
cd /verif
for d in "$@"; do
  out=$(tools/seedtest.sh "$d" 2>&1)
  t=$(echo "$out" | grep -c "existing tests.*rc=0")
  d1=$(echo "$out" | grep "demo with patch" | sed 's/.*rc=\([0-9]*\).*/\1/')
  d2=$(echo "$out" | grep "demo without patch" | sed 's/.*rc=\([0-9]*\).*/\1/')
  crc=$(echo "$out" | grep "check .* quick on patched" | sed 's/.*rc=\([0-9]*\).*/\1/' | tr '\n' ',')
  echo "$(basename $d): tests_ok=$t demo_patched_rc=$d1 demo_pristine_rc=$d2 check_rc=$crc $(echo "$out" | grep -m2 'signature=' | tr '\n' ' ' | cut -c1-220)"
  echo "$out" > /tmp/seedtest_$(basename $d).log
done
