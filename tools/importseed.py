#!/usr/bin/env python3
"""imports sub-agent deliverables /tmp/seed-cNN/{a,b} into /verif/seeded/CNN{a,b}/ (patch.diff, demo_test.go, meta.json)"""
import json, os, re, shutil, sys
pid = sys.argv[1]
n = pid[1:]
for v in (sys.argv[2] if len(sys.argv) > 2 else 'ab'):
    src = f'/tmp/seed{"6" if v in "kl" else "5" if v in "ij" else "4" if v in "gh" else "3" if v in "ef" else "2" if v in "cd" else ""}-c{n}/{v}'
    if not os.path.exists(src + '/patch.diff'): continue
    dst = f'/verif/seeded/{pid}{v}'
    os.makedirs(dst, exist_ok=True)
    shutil.copy(src + '/patch.diff', dst + '/patch.diff')
    demo = [f for f in os.listdir(src) if f.endswith('_test.go')]
    shutil.copy(src + '/' + demo[0], dst + '/demo_test.go')
    notes = json.load(open(src + '/notes.json'))
    json.dump(notes, open(dst + '/agent_notes.json', 'w'), indent=1)
    files = notes.get('files_changed') or []
    mod = files[0].split('/')[0] if files else notes['demo_dir'].split('/')[0]
    cmd = notes['demo_cmd']
    cmd = re.sub(r'(export )?GOFLAGS=\S+ GOPROXY=\S+ GOSUMDB=\S+ GOTOOLCHAIN=\S+( &&|;)? ?', '', cmd)
    cmd = re.sub(r'cd \S+ && ', '', cmd)
    meta = {'property': pid, 'variant': v, 'module': mod, 'demo_dir': notes['demo_dir'].rstrip('/'), 'demo_cmd': cmd.strip(),
            'summary': notes.get('summary'), 'why_it_breaks': notes.get('why_it_breaks'), 'needs_to_manifest': notes.get('needs_to_manifest'),
            'origin': 'independent sub-agent given only the property text and a scratch worktree'}
    json.dump(meta, open(dst + '/meta.json', 'w'), indent=1)
    print(dst, mod, meta['demo_dir'], '|', meta['demo_cmd'])
