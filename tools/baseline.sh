#!/bin/bash
# Runs the repository's baseline suite (guard off: plain go test per module) and lists stable-pass tests that do not pass.
export GOFLAGS=-mod=mod GOPROXY=off GOSUMDB=off GOTOOLCHAIN=local
out=${1:-/tmp/baseline.json}
: > $out
for m in ads app apputils codegen constraints core crypto db ds ierrors kvstore lo log logger runtime serializer sql stringify web; do
  (cd /repo/$m && go test -mod=mod -json -vet=off -count=1 -timeout 25m ./... >> $out 2>/dev/null)
done
python3 - "$out" <<'PY'
import json,sys
passed=set(); failed=set()
for l in open(sys.argv[1]):
    try: e=json.loads(l)
    except: continue
    if e.get('Test'):
        k=e['Package']+'::'+e['Test']
        if e['Action']=='pass': passed.add(k)
        if e['Action']=='fail': failed.add(k)
b=json.load(open('/root/.vp/BASELINE.json'))
stable=set(b['stable_pass'])
missing=sorted(stable-passed)
print('stable_pass',len(stable),'passed now',len(stable&passed),'not passing',len(missing))
for m in missing: print('  NOT PASSING',m, '(failed)' if m in failed else '(not run)')
PY
