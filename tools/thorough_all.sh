#!/bin/bash
cd /verif
ids=${*:-$(jq -r '.checks[].property_id' MANIFEST.json)}
mkdir -p evidence_thorough
for id in $ids; do
  t0=$(date +%s)
  out=$(./check $id thorough 2>&1); rc=$?
  t1=$(date +%s)
  echo "$id rc=$rc secs=$((t1-t0)) $(echo "$out" | grep -E "^$id tier" | tail -1)"
  [ $rc -ne 0 ] && echo "$out" | grep -E "VIOLATION|signature|INFRA" | head -8
  cp evidence/$id.json evidence_thorough/$id.json 2>/dev/null
done
