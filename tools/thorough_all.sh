#!/bin/bash
cd /verif
for id in $(jq -r '.checks[].property_id' MANIFEST.json); do
  t0=$(date +%s)
  out=$(./check $id thorough 2>&1); rc=$?
  t1=$(date +%s)
  echo "$id rc=$rc secs=$((t1-t0)) $(echo "$out" | grep -E "^$id tier" | tail -1)"
  [ $rc -ne 0 ] && echo "$out" | grep -E "VIOLATION|signature|INFRA" | head -8
  cp evidence/$id.json /tmp/evidence_thorough_$id.json 2>/dev/null
done
