// vinstr rewrites the concurrency vocabulary of hive.go source files so that it
// goes through verif's controlled runtime, and writes the result as a `go build
// -overlay` file set.  /repo is never modified.
//
//	vinstr -repo /repo -out /verif/build/overlay [-extra dir=file.go,...]
//
// Rewrites (purely syntactic): imports sync, sync/atomic, time, context ->
// verif/vsync, vatomic, vtime, vcontext; go statements -> vrt.Go; channel send /
// receive / close / select -> vrt helpers.  `for k := range m` loops that carry
// the marker listed in mapRanges are iterated in an explorer-owned order.
// Anything the rewriter does not understand is a hard error (exit 2).
package main

import (
	"bytes"
	"encoding/json"
	"flag"
	"fmt"
	"go/ast"
	"go/format"
	"go/parser"
	"go/token"
	"os"
	"path/filepath"
	"sort"
	"strconv"
	"strings"

	"golang.org/x/tools/go/ast/astutil"
)

// directories (relative to the repo root) whose non-test files are instrumented
var dirs = []string{
	"ads",
	"app/daemon",
	"core/memstorage",
	"core/eventticker",
	"ds", "ds/bytesfilter", "ds/generalheap", "ds/onchangemap", "ds/orderedmap", "ds/priorityqueue",
	"ds/queue", "ds/randommap", "ds/reactive", "ds/ringbuffer", "ds/serializableorderedmap",
	"ds/shrinkingmap", "ds/stack", "ds/timeheap", "ds/types", "ds/walker", "ds/bitmask", "ds/thresholdmap", "ds/advancedset",
	"kvstore", "kvstore/mapdb", "kvstore/flushkv", "kvstore/debug", "kvstore/utils",
	"runtime/contextutils", "runtime/event", "runtime/promise", "runtime/syncutils",
	"runtime/timed", "runtime/timeutil", "runtime/valuenotifier", "runtime/workerpool", "runtime/options",
	"runtime/module", "runtime/memanalyzer", "runtime/ioutils", "runtime/backoff",
	"web/subscriptionmanager",
}

// map-typed range expressions (file suffix -> expression text) that must be iterated in owned order
var mapRanges = map[string][]string{
	"app/daemon/daemon.go":   {"d.workers", "d.wgPerSameShutdownOrder"},
	"kvstore/mapdb/mapdb.go": {"b.setOperations", "b.deleteOperations"},
}

var importMap = map[string][2]string{
	"sync":        {"verif/vsync", "sync"},
	"sync/atomic": {"verif/vatomic", "atomic"},
	"time":        {"verif/vtime", "time"},
	"context":     {"verif/vcontext", "context"},
}

type rewriter struct {
	fset    *token.FileSet
	file    *ast.File
	rel     string
	usedVrt bool
	changed bool
	tmp     int
	errs    []string
}

func (r *rewriter) errorf(n ast.Node, f string, a ...any) {
	r.errs = append(r.errs, fmt.Sprintf("%s: %s", r.fset.Position(n.Pos()), fmt.Sprintf(f, a...)))
}

func (r *rewriter) vrt(name string) ast.Expr {
	r.usedVrt = true
	r.changed = true
	return &ast.SelectorExpr{X: ast.NewIdent("vrt"), Sel: ast.NewIdent(name)}
}

func (r *rewriter) call(name string, args ...ast.Expr) *ast.CallExpr {
	return &ast.CallExpr{Fun: r.vrt(name), Args: args}
}

func (r *rewriter) fresh(p string) *ast.Ident {
	r.tmp++
	return ast.NewIdent(fmt.Sprintf("_v%s%d", p, r.tmp))
}

func isConstLike(e ast.Expr) bool {
	switch x := e.(type) {
	case *ast.BasicLit:
		return true
	case *ast.Ident:
		return x.Name == "nil" || x.Name == "true" || x.Name == "false" || x.Name == "iota"
	case *ast.UnaryExpr:
		return x.Op != token.ARROW && isConstLike(x.X)
	case *ast.ParenExpr:
		return isConstLike(x.X)
	case *ast.FuncLit:
		return true
	}
	return false
}

func define(lhs ast.Expr, rhs ast.Expr) ast.Stmt {
	return &ast.AssignStmt{Lhs: []ast.Expr{lhs}, Tok: token.DEFINE, Rhs: []ast.Expr{rhs}}
}

// goStmt: go f(a, b) -> { _f := f; _a := a; vrt.Go(func() { _f(_a, b) }) }
func (r *rewriter) goStmt(g *ast.GoStmt) ast.Stmt {
	call := g.Call
	var pre []ast.Stmt
	fun := call.Fun
	if fl, ok := fun.(*ast.FuncLit); ok && len(call.Args) == 0 {
		return &ast.ExprStmt{X: r.call("Go", fl)}
	}
	if _, ok := fun.(*ast.FuncLit); !ok {
		f := r.fresh("f")
		pre = append(pre, define(f, fun))
		fun = f
	}
	args := make([]ast.Expr, len(call.Args))
	for i, a := range call.Args {
		if isConstLike(a) {
			args[i] = a
			continue
		}
		v := r.fresh("a")
		pre = append(pre, define(v, a))
		args[i] = v
	}
	inner := &ast.CallExpr{Fun: fun, Args: args, Ellipsis: call.Ellipsis}
	if call.Ellipsis != token.NoPos {
		inner.Ellipsis = 1
	}
	body := &ast.BlockStmt{List: []ast.Stmt{&ast.ExprStmt{X: inner}}}
	lit := &ast.FuncLit{Type: &ast.FuncType{Params: &ast.FieldList{}}, Body: body}
	pre = append(pre, &ast.ExprStmt{X: r.call("Go", lit)})
	return &ast.BlockStmt{List: pre}
}

func recvOf(e ast.Expr) (ast.Expr, bool) {
	for {
		p, ok := e.(*ast.ParenExpr)
		if !ok {
			break
		}
		e = p.X
	}
	u, ok := e.(*ast.UnaryExpr)
	if ok && u.Op == token.ARROW {
		return u.X, true
	}
	return nil, false
}

func (r *rewriter) selectStmt(s *ast.SelectStmt) ast.Stmt {
	var pre []ast.Stmt
	var caseArgs []ast.Expr
	hasDefault := false
	res := r.fresh("s")
	sw := &ast.SwitchStmt{Body: &ast.BlockStmt{}}
	idx := 0
	for _, cl := range s.Body.List {
		cc := cl.(*ast.CommClause)
		out := &ast.CaseClause{}
		if cc.Comm == nil {
			hasDefault = true
			out.List = nil
			out.Body = cc.Body
			sw.Body.List = append(sw.Body.List, out)
			continue
		}
		out.List = []ast.Expr{&ast.BasicLit{Kind: token.INT, Value: strconv.Itoa(idx)}}
		idx++
		switch c := cc.Comm.(type) {
		case *ast.SendStmt:
			chv, vv := r.fresh("c"), r.fresh("x")
			pre = append(pre, define(chv, c.Chan))
			var val ast.Expr = vv
			if isConstLike(c.Value) {
				val = c.Value
			} else {
				pre = append(pre, define(vv, c.Value))
			}
			caseArgs = append(caseArgs, r.call("SendCase", chv, val))
			out.Body = cc.Body
		case *ast.ExprStmt:
			ch, ok := recvOf(c.X)
			if !ok {
				r.errorf(c, "unsupported select case expression")
				return s
			}
			chv := r.fresh("c")
			pre = append(pre, define(chv, ch))
			caseArgs = append(caseArgs, r.call("RecvCase", chv))
			out.Body = cc.Body
		case *ast.AssignStmt:
			if len(c.Rhs) != 1 {
				r.errorf(c, "unsupported select case assignment")
				return s
			}
			ch, ok := recvOf(c.Rhs[0])
			if !ok {
				r.errorf(c, "unsupported select case assignment")
				return s
			}
			chv := r.fresh("c")
			pre = append(pre, define(chv, ch))
			caseArgs = append(caseArgs, r.call("RecvCase", chv))
			rhs := []ast.Expr{r.call("Val", chv, res)}
			if len(c.Lhs) == 2 {
				rhs = append(rhs, &ast.SelectorExpr{X: res, Sel: ast.NewIdent("OK")})
			}
			as := &ast.AssignStmt{Lhs: c.Lhs, Tok: c.Tok, Rhs: rhs}
			out.Body = append([]ast.Stmt{as}, cc.Body...)
		default:
			r.errorf(cc, "unsupported select clause")
			return s
		}
		sw.Body.List = append(sw.Body.List, out)
	}
	def := "false"
	if hasDefault {
		def = "true"
	} else {
		// keep the statement terminating when every case terminates
		sw.Body.List = append(sw.Body.List, &ast.CaseClause{Body: []ast.Stmt{&ast.ExprStmt{X: &ast.CallExpr{Fun: ast.NewIdent("panic"), Args: []ast.Expr{&ast.BasicLit{Kind: token.STRING, Value: `"vrt: select without ready case"`}}}}}})
	}
	args := append([]ast.Expr{ast.NewIdent(def)}, caseArgs...)
	sw.Init = define(res, r.call("Select", args...))
	sw.Tag = &ast.SelectorExpr{X: res, Sel: ast.NewIdent("I")}
	if len(pre) == 0 {
		return sw
	}
	return &ast.BlockStmt{List: append(pre, sw)}
}

func exprString(fset *token.FileSet, e ast.Expr) string {
	var b bytes.Buffer
	_ = format.Node(&b, fset, e)
	return b.String()
}

func (r *rewriter) rewrite() {
	// labelled select statements: `L: select {...}` with `break L` inside would change
	// meaning only if the label is used by continue; Go forbids that for select.
	pre := func(c *astutil.Cursor) bool { return true }
	post := func(c *astutil.Cursor) bool {
		switch n := c.Node().(type) {
		case *ast.GoStmt:
			c.Replace(r.goStmt(n))
		case *ast.SendStmt:
			if cc, inSelect := c.Parent().(*ast.CommClause); inSelect && cc.Comm == ast.Stmt(n) {
				return true
			}
			c.Replace(&ast.ExprStmt{X: r.call("Send", n.Chan, n.Value)})
		case *ast.SelectStmt:
			if lbl, ok := c.Parent().(*ast.LabeledStmt); ok {
				_ = lbl // a labelled block/switch keeps `break L` legal
			}
			c.Replace(r.selectStmt(n))
		case *ast.UnaryExpr:
			if n.Op != token.ARROW {
				return true
			}
			switch p := c.Parent().(type) {
			case *ast.ExprStmt:
				if cc, inSelect := parentOf(r.file, p).(*ast.CommClause); inSelect && cc.Comm == ast.Stmt(p) {
					return true
				}
			case *ast.AssignStmt:
				if cc, inSelect := parentOf(r.file, p).(*ast.CommClause); inSelect && cc.Comm == ast.Stmt(p) && len(p.Rhs) == 1 && p.Rhs[0] == ast.Expr(n) {
					return true
				}
				if len(p.Lhs) == 2 && len(p.Rhs) == 1 && p.Rhs[0] == ast.Expr(n) {
					c.Replace(r.call("Recv2", n.X))
					return true
				}
			case *ast.ValueSpec:
				if len(p.Names) == 2 && len(p.Values) == 1 {
					c.Replace(r.call("Recv2", n.X))
					return true
				}
			}
			c.Replace(r.call("Recv", n.X))
		case *ast.CallExpr:
			if id, ok := n.Fun.(*ast.Ident); ok && id.Name == "close" && len(n.Args) == 1 && id.Obj == nil {
				n.Fun = r.vrt("Close")
			}
		case *ast.RangeStmt:
			for _, want := range mapRanges[r.rel] {
				if exprString(r.fset, n.X) == want {
					n.X = r.call("OrderedMap", n.X)
					// vrt.OrderedMap returns []vrt.KV[K,V]; rewrite `for k, v := range m` into
					// `for _, _kv := range vrt.OrderedMap(m) { k, v := _kv.K, _kv.V; ... }`
					kv := r.fresh("kv")
					var lhs, rhs []ast.Expr
					if n.Key != nil {
						lhs = append(lhs, n.Key)
						rhs = append(rhs, &ast.SelectorExpr{X: kv, Sel: ast.NewIdent("K")})
					}
					if n.Value != nil {
						lhs = append(lhs, n.Value)
						rhs = append(rhs, &ast.SelectorExpr{X: kv, Sel: ast.NewIdent("V")})
					}
					if len(lhs) > 0 {
						n.Body.List = append([]ast.Stmt{&ast.AssignStmt{Lhs: lhs, Tok: n.Tok, Rhs: rhs}}, n.Body.List...)
					}
					n.Key = ast.NewIdent("_")
					n.Value = kv
					n.Tok = token.DEFINE
				}
			}
		}
		return true
	}
	astutil.Apply(r.file, pre, post)
}

// parentOf finds the parent node of target (slow path, only used for the rare receive expressions).
func parentOf(root ast.Node, target ast.Node) ast.Node {
	var parent ast.Node
	var stack []ast.Node
	ast.Inspect(root, func(n ast.Node) bool {
		if n == nil {
			stack = stack[:len(stack)-1]
			return true
		}
		if n == target && len(stack) > 0 {
			parent = stack[len(stack)-1]
		}
		stack = append(stack, n)
		return parent == nil
	})
	return parent
}

func (r *rewriter) imports() {
	for _, imp := range r.file.Imports {
		p, _ := strconv.Unquote(imp.Path.Value)
		m, ok := importMap[p]
		if !ok {
			continue
		}
		// only rewrite if the package name is actually used as a qualifier (always true for compiled code)
		if imp.Name == nil {
			imp.Name = ast.NewIdent(m[1])
		}
		imp.Path.Value = strconv.Quote(m[0])
		imp.EndPos = 0
		r.changed = true
	}
	if r.usedVrt {
		astutil.AddNamedImport(r.fset, r.file, "vrt", "verif/vrt")
	}
}

func main() {
	repo := flag.String("repo", "/repo", "repository root")
	out := flag.String("out", "", "output directory for the overlay")
	flag.Parse()
	if *out == "" {
		fmt.Fprintln(os.Stderr, "vinstr: -out required")
		os.Exit(2)
	}
	_ = os.RemoveAll(*out)
	if err := os.MkdirAll(*out, 0o755); err != nil {
		fmt.Fprintln(os.Stderr, err)
		os.Exit(2)
	}
	overlay := map[string]string{}
	var allErrs []string
	nfiles := 0
	for _, d := range dirs {
		abs := filepath.Join(*repo, d)
		ents, err := os.ReadDir(abs)
		if err != nil {
			continue // package removed by an edit: the build will say so
		}
		for _, ent := range ents {
			name := ent.Name()
			if ent.IsDir() || !strings.HasSuffix(name, ".go") || strings.HasSuffix(name, "_test.go") {
				continue
			}
			src := filepath.Join(abs, name)
			fset := token.NewFileSet()
			f, err := parser.ParseFile(fset, src, nil, parser.ParseComments)
			if err != nil {
				allErrs = append(allErrs, err.Error())
				continue
			}
			r := &rewriter{fset: fset, file: f, rel: filepath.ToSlash(filepath.Join(d, name))}
			r.rewrite()
			r.imports()
			allErrs = append(allErrs, r.errs...)
			if !r.changed {
				continue
			}
			var buf bytes.Buffer
			if err := format.Node(&buf, fset, f); err != nil {
				allErrs = append(allErrs, src+": "+err.Error())
				continue
			}
			dst := filepath.Join(*out, strings.ReplaceAll(filepath.ToSlash(filepath.Join(d, name)), "/", "__")+".txt")
			if err := os.WriteFile(dst, buf.Bytes(), 0o644); err != nil {
				allErrs = append(allErrs, err.Error())
				continue
			}
			overlay[src] = dst
			nfiles++
		}
	}
	if len(allErrs) > 0 {
		sort.Strings(allErrs)
		for _, e := range allErrs {
			fmt.Fprintln(os.Stderr, "vinstr:", e)
		}
		os.Exit(2)
	}
	js, _ := json.MarshalIndent(map[string]any{"Replace": overlay}, "", " ")
	if err := os.WriteFile(filepath.Join(*out, "overlay.json"), js, 0o644); err != nil {
		fmt.Fprintln(os.Stderr, err)
		os.Exit(2)
	}
	fmt.Printf("vinstr: %d files rewritten\n", nfiles)
}
