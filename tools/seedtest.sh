#!/bin/bash
# usage: tools/seedtest.sh <seed-dir> [check-id ...]
# Confirms a seeded change: (1) in a scratch worktree at /repo's HEAD the patch applies, the module's own
# tests pass, the demonstration fails with it and passes without it; (2) the registered checks of the
# property report a VIOLATION on /repo with the patch applied; /repo is restored afterwards.
set -u
export GOFLAGS=-mod=mod GOPROXY=off GOSUMDB=off GOTOOLCHAIN=local
seed=$(realpath "$1"); shift
meta="$seed/meta.json"
prop=$(jq -r .property "$meta"); demo_dir=$(jq -r .demo_dir "$meta"); demo_cmd=$(jq -r .demo_cmd "$meta"); mod=$(jq -r .module "$meta")
checks=${*:-$(jq -r '(.checks // [.property]) | join(" ")' "$meta")}
wt=$(mktemp -d /tmp/seedwt.XXXX); rmdir "$wt"
git -C /repo worktree add -q --detach "$wt" HEAD || exit 2
trap 'git -C /repo worktree remove --force "$wt" 2>/dev/null; git -C /repo checkout -q -- . 2>/dev/null' EXIT
res() { echo "[seedtest] $*"; }
if [ -z "${SEEDTEST_CHECK_ONLY:-}" ]; then
git -C "$wt" apply "$seed/patch.diff" || { res "patch does not apply"; exit 2; }
( cd "$wt/$mod" && go test -vet=off -count=1 ./... >/tmp/seedtest.$$.log 2>&1 ); rc=$?
res "existing tests of module $mod with patch: rc=$rc"; [ $rc -ne 0 ] && grep -E "^(--- FAIL|FAIL)" /tmp/seedtest.$$.log
cp "$seed"/demo_test.go "$wt/$demo_dir/zz_seed_demo_test.go"
( cd "$wt/$mod" && eval "$demo_cmd" >/tmp/seedtest.$$.demo1 2>&1 ); d1=$?
res "demo with patch: rc=$d1 (expected != 0)"
git -C "$wt" apply -R "$seed/patch.diff"
( cd "$wt/$mod" && eval "$demo_cmd" >/tmp/seedtest.$$.demo2 2>&1 ); d2=$?
res "demo without patch: rc=$d2 (expected 0)"; [ $d2 -ne 0 ] && tail -20 /tmp/seedtest.$$.demo2
fi
git -C /repo apply "$seed/patch.diff" || { res "patch does not apply to /repo"; exit 2; }
for c in $checks; do
  out=$(cd /verif && ./check "$c" quick 2>&1); crc=$?
  res "check $c quick on patched /repo: rc=$crc"
  echo "$out" | grep -E "^VIOLATION|signature=" | head -6
done
git -C /repo checkout -q -- .
rm -f /tmp/seedtest.$$.*
