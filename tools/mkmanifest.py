#!/usr/bin/env python3
"""Regenerates /verif/MANIFEST.json from the table below (one entry per claimed property)."""
import json, os
V = os.path.dirname(os.path.dirname(os.path.abspath(__file__)))
props = [json.loads(l) for l in open(os.path.join(V, 'properties.jsonl'))]
claimed = {
 'C17': dict(cat='model_checking', engine='S',
   technique='stateless model checking of the real code: all interleavings (happens-before state cache) and deviation-bounded DFS under a controlled scheduler',
   text='Every interleaving of the scripted 2-3 thread (thorough: 4 thread) lock/unlock scripts on the real StarvingMutex/DAGMutex/Counter/Stack code is executed under the controlled scheduler; a holder-set monitor checks exclusion at every grant, every script must complete (a lost wake-up is a deadlock), misuse scripts must panic or leave the state untouched, waits must return only if their condition held inside the call. Bounded part: preemption bound 2 (quick) / 3 (thorough); unbounded part: all interleavings with state caching where it completes within the deadline.',
   note='Trusted: the vsync/vatomic shims model sync faithfully (selftest), sequential consistency, instrumentation covers every synchronisation operation of the packages in scope (vinstr fails loudly otherwise).', ref='2 C17'),

 'C16': dict(cat='model_checking', engine='S',
   technique='stateless model checking of the real code under a controlled scheduler: delay-bounded DFS over all interleavings with a happens-before state cache',
   text='13 closed scenarios (submit/submit-then-shutdown, submit racing shutdown, nested submit, WaitIsZero, restart, group WaitChildren; 1-2 workers, cancel flag on/off) are run on the real WorkerPool/Group code; every schedule with at most 3 (quick) / 4 (thorough) deviations from the default schedule is executed. Oracles: no task runs twice or after shutdown completion was observed, accepted == run (or cancelled), pending counter returns to 0, every call returns (deadlock = violation), WaitChildren does not return while a task submitted before the call is pending.',
   note='Trusted: shim fidelity (selftest), sequential consistency, runtime/debug disabled. Four genuine defects are listed in known_findings.json (lost wake-up in Stack.SignalShutdown, Submit-vs-Shutdown window, restart deadlock).', ref='2 C16'),
 'C08': dict(cat='model_checking', engine='S',
   technique='stateless model checking of the real code under a controlled scheduler (virtual clock for the batch time-out): delay-bounded DFS with a happens-before state cache',
   text='Producers, Flush, one or two StopBatchWriter callers and the writer goroutine of the real BatchedWriter over the real mapdb are explored for queue sizes 0-2 and batch sizes 1-2 with at most 2 (quick) / 3 (thorough) deviations (early time-out firing is a deviation). Oracle on the recorded log: BatchWrite -> store commit -> BatchWriteDone per scheduling, nothing after Stop returned, store contents == last BatchWrite, every Enqueue that returned before Stop was invoked is written, every call returns (a writer that is kept alive by nothing but its batch timer while Stop waits for it is reported as a livelock); one directed four-party scenario (busy writer, pending Flush, Stop, withdrawing producer) uses waiting object callbacks.',
   note='Trusted: shim fidelity incl. timers (selftest); harness object implements the scheduled flag as atomic test-and-set. Two genuine defects were repaired (fix: commits a4707ca, 3cdaa7b).', ref='2 C08'),

 'C10': dict(cat='model_checking', engine='H+S',
   technique='explicit-state search over operation histories of the real list against container/list (BFS with state merging to a fixpoint under a handle bound, plus depth-bounded DFS without merging)',
   text='Every history of the 12 List operations with every handle argument (live, removed, foreign, created by PushBackList copies) on two lists, both flavours, is executed on the real ds.List and on container/list; after every step forward/backward order, Len, Front/Back identity and Prev/Next/Value of every handle are compared. Merged search reaches the fixpoint for <= 5 (thorough 6) handles; unmerged search covers all histories of depth 4 (thorough 5) with 3 handles. The thread-safe flavour runs on the instrumented sync shim, so a self-deadlock is reported instead of hanging.',
   note='Trusted: container/list as reference; handles that predate an Init of their list are retired (container/list is undefined there). Two genuine defects were repaired (fix: commits be487f4, d796801).', ref='2 C10'),
 'C04': dict(cat='model_checking', engine='H',
   technique='explicit-state breadth-first search over operation histories on the real store views against a single ordered-map model, states merged on the model state',
   text='All histories up to depth 4 (thorough 6) of mutating operations (Set/Delete/DeletePrefix/Clear/Close; batch focus: Batched/b.Set/b.Delete/Commit/Cancel/Flush) through 3 views of one mapdb, for 6 view trees (nested, overlapping, empty and 0xff-terminated realms, WithRealm vs WithExtendedRealm) x up to 5 wrapper stacks. After every step every Get/Has/Iterate/IterateKeys (4 prefixes x 2 directions x stop/no stop) of every view, Realm() and the whole contents seen through the unwrapped root are compared with one map keyed by realm||key; error identities (ErrKeyNotFound/ErrStoreClosed) included; all caller buffers and returned slices are overwritten after each call.',
   note='Trusted: the model (sorted Go map). Mutation of a value slice between batch Set and Commit is outside the statement and not exercised.', ref='2 C04'),

 'C05': dict(cat='model_checking', engine='S+HB',
   technique='stateless model checking of the real code under a controlled scheduler (preemption-bounded DFS, then all interleavings with a happens-before state cache); each execution history checked for linearizability with porcupine; the same schedules re-explored in a race-detector build in which the scheduler is hidden from the detector and the shims report the real happens-before edges (data races decided per explored schedule)',
   text='11 operation mixes (Set/Get/Delete, Set/DeletePrefix/Has, Clear, Iterate/IterateKeys in both directions, batch Commit vs Iterate/Get/DeletePrefix/batch) by 2-4 threads through two overlapping views (realm empty and 00, colliding stored keys) over mapdb and flushkv(mapdb). Every interleaving with <= 2 (thorough 3) preemptions and, where it completes, every interleaving at all (state cache) is executed on the real code; the recorded call/return history of every execution plus a sequential read of the final contents is checked by porcupine against the C04 ordered-map model (batch = one atomic write per key inside the Commit interval; Iterate = atomic snapshot). Deadlocks and panics are violations. Plus one scenario per unordered pair of the nine operations (45 x 2 stores), the two threads using the same view object or different ones (chosen by the explorer). hb:<scenario> work items run every scenario again in the race-detector build (bound 1 quick, bound 2 + all interleavings thorough): any pair of conflicting accesses of hive.go code not ordered by the synchronisation of the store itself in an explored schedule is a violation data-race|f1|f2. A free-running -race stress pass (sampling, 2-16 goroutines) is supplementary.',
   note='Trusted: shim fidelity (incl. the happens-before edges the shims report), sequential consistency, porcupine, the race detector (bounded access history per memory cell). 5-16 goroutines are only sampled.', ref='2 C05'),

 'C06': dict(cat='fault_enumeration', engine='H+S',
   technique='explicit-state search over operation histories with a fault injected at every store/codec call position of every operation (merged on model + real cache contents, plus unmerged depth-bounded pass); stateless model checking of concurrent callers',
   text='TypedValue: all histories of Get/Has/Set/Delete/Compute (increment, constant, ErrTypedValueNotChanged, failing) and Reopen (fresh TypedValue over the same store), each operation also with the 1st..4th environment call (kv.Get/Has/Set/Delete, encoder, decoder) failing; merged search to the fixpoint and unmerged search to depth 4 (thorough 5). TypedStore: Get/Has/Set/Delete/Iterate/IterateKeys with faults in every key/value codec and store call. Oracle: results equal the raw key under the codec, a fired fault is reported as an error and leaves raw bytes and later results unchanged, stored bytes == encoding of the last successfully written value, compute functions see the raw value. S: 7 scenarios of 2-3 concurrent Compute/Set/Delete/Get/Has callers (fresh and warm caches), all interleavings: no lost update, cache coherent with the raw key at the end.',
   note='Trusted: fault model = generic error at one call position per operation; the TypedValue is the only writer of its key. One genuine defect repaired (fix: commit).', ref='2 C06'),
 'C07': dict(cat='fault_enumeration', engine='H+S',
   technique='exhaustive enumeration of operation histories x crash points (process stops before/after each store call) on the real Sequence over a store that outlives the objects; stateless model checking of concurrent Next callers',
   text='Every history up to depth 7 (thorough 8) over Next, Release, Restart(interval 1..3), where every Next/Release additionally runs with the process stopping before or after its 1st/2nd store call, or with that store call failing (object stays in use). Oracle: numbers returned over the whole life of the store strictly increase; the gap between consecutive numbers is at most the sum of the intervals of the objects crashed or abandoned without Release in between and exactly 0 after clean Releases. S: all interleavings of 2-3 threads x 2 Next on one Sequence (intervals 1-3): all numbers distinct, per-caller increasing, restart after Release continues without a gap.',
   note='Trusted: one live Sequence object per key; store calls fail only by the process stopping. One genuine defect repaired (fix: commit).', ref='2 C07'),

 'C19': dict(cat='exploration', engine='I',
   technique='exhaustive enumeration of operand spaces against exact arithmetic (complete for 8-bit and, in the thorough tier, 16-bit types; complete cross product of a boundary alphabet for 32/64-bit)',
   text='SafeAdd/Sub/Mul/Div for every operand pair and SafeLeftShift for every (value, shift 0..255) pair of int8/uint8 (quick and thorough) and int16/uint16 (thorough: all 2^32 pairs; quick: every value against the boundary alphabet in both positions) are compared with int64 arithmetic; for 32/64-bit types, SafeMulUint64, SafeMulInt64 and Safe64MulDiv (triples) the complete cross product of a boundary alphabet (0, +-1..3, min/max+-3, +-2^k(+-1) for every k, sqrt(max)+-1, max/a+-1) is compared with math/big. Representable => exact value and nil error; otherwise exactly the overflow / division-by-zero error.',
   note='Exhaustive only for the 8/16-bit spaces; 32/64-bit is exhaustive over the stated alphabet, not over all operands (stated in evidence: exhaustive=false for those parts). Three genuine defects repaired (fix: commits).', ref='2 C19'),

 'C11': dict(cat='model_checking', engine='H+S',
   technique='explicit-state breadth-first search to the fixpoint of the reachable state space against an insertion-ordered reference model; stateless model checking (all interleavings with state cache, preemption-bounded DFS) of concurrent callers',
   text='H: over universe {1,2,3} the complete reachable state spaces of OrderedMap (Set/Delete/Clear, iteration whose consumer deletes the visited key), ds.Set (Add/Delete/AddAll/DeleteAll/Replace/Apply/Compute/Clear/Encode-Decode with all 8 subsets, all disjoint mutation pairs and the set itself as arguments) and SetArithmetic (Add/Subtract, thresholds 1 and 2) are explored; after every step every probe (order forwards/backwards, Has/HasAll/Equals/Intersect/Filter/Clone/Is/Any/Iterator/Size, Head/Tail) and every returned diff is compared with the model (diff == exactly the elements whose membership changed). S: 7 scenarios (DeleteAll||Apply, AddAll||DeleteAll||Replace, Compute||Compute, Compute||Apply||Replace, Apply||Apply, Add/Delete/Has with porcupine, OrderedMap Set/Delete||ForEach): every interleaving; no deadlock, results explainable by a serial order.',
   note='Trusted: reference model; Apply exercised with disjoint added/deleted sets. Two genuine defects repaired (fix: commits).', ref='2 C11'),

 'C20': dict(cat='model_checking', engine='S',
   technique='stateless model checking of the real daemon under a controlled scheduler with virtual contexts: delay-bounded DFS with a happens-before state cache; map iteration order of the worker map is an explorer-owned choice',
   text='23 scenarios (3 workers with orders incl. ties/negatives/gaps registered before Start, workers added while running, BackgroundWorker racing ShutdownAndWait, early-exiting worker and re-registration of its name, duplicate running name, two ShutdownAndWait callers, Shutdown()+ShutdownAndWait, Run+shutdown, equal-order workers that only return after each other saw the cancellation, a lower-order worker that exits by itself on ContextStopped, extreme orders, read-only queries, Start racing ShutdownAndWait, shutdown before the daemon was started followed by Start or Run) are explored with at most 3 (quick) / 4 (thorough) deviations. Oracle on the recorded log: a still-running worker is cancelled only after every started worker of higher order has returned; ShutdownAndWait/Run return only after all started workers returned; nothing starts afterwards; error identities; no deadlock, no panic.',
   note='Trusted: vcontext fidelity; cancelling an already returned worker is not judged. Two genuine defects repaired (fix: commits; the second one, Start racing Shutdown, is 215150b).', ref='2 C20'),

 'C12': dict(cat='model_checking', engine='H+S',
   technique='explicit-state search over operation histories of each real container against its abstract model (BFS with state merging to the fixpoint where the model state is canonical plus an unmerged every-history pass to a budgeted depth, depth-bounded DFS otherwise); stateless model checking of concurrent PriorityQueue removal handles',
   text='29 systems: ShrinkingMap (5 shrink-threshold settings), RandomMap, ds and timed PriorityQueue (ascending/descending, removal handles), Queue/RingBuffer/BytesFilter (capacities 1-3), Stack (both flavours), Walker (revisit on/off), TimeHeap (virtual clock), IndexedStorage, OnChangeMap (callbacks on/off, failing), SubscriptionManager (limits 0/2/3, 2 clients x 3 topics). Every history over a small universe is applied to the real object and to the model; all return values, all read-only probes, and every emitted callback/event are compared after every step; random picks are checked for membership and distinctness.',
   note='Trusted: the abstract models written for this check. Four genuine defects repaired (fix: commits in ds/walker, ds/timeheap, web/subscriptionmanager).', ref='2 C12'),

 'C09': dict(cat='model_checking', engine='H+S',
   technique='exhaustive depth-bounded enumeration of operation histories on the real authenticated map/set over mapdb against a plain map model plus a differential content-only-root oracle',
   text='Every history up to depth 5 (map; 18 operations) / 6 (set; 10 operations), thorough +1, of Set/Add, Delete, Commit and Reopen (clean state only) over 4 keys (two sharing the first byte of their SHA-256 path) and values empty/a/b. After every step: Get/Has of every key, Size, Stream, Delete results equal the model; Root equals the root of a fresh instance built from the same contents in canonical order (so equal contents reached through any history give equal roots) and distinct contents have distinct roots; after Reopen root, size, contents are unchanged and WasRestoredFromStorage == (a Commit happened).',
   note='Trusted: plain-map model; pokt-network/smt is exercised as part of the system, not modelled. Reopen only after Commit/pristine.', ref='2 C09'),

 'C13': dict(cat='model_checking', engine='S',
   technique='stateless model checking of the real reactive primitives under a controlled scheduler (preemption-bounded DFS with state cache; thorough: all interleavings where the cache completes)',
   text='8 scenarios on reactive Variable, Event and Set: two or three concurrent writers (Set/Compute/Add/Apply/Replace/Delete/Trigger) with a subscriber present from the start and a subscriber that subscribes (with/without zero-value trigger) and unsubscribes concurrently; callbacks yield so overlapping executions are possible. Every interleaving with <= 2 (thorough 3) preemptions is executed. Oracle per subscription: the first callback starts from the zero value, each prev equals the preceding new, last new == final Get, folding the reported set mutations == final contents, callbacks of one subscription never overlap, none starts after its unsubscribe returned, event handlers run exactly once, no deadlock.',
   note='Trusted: shim fidelity; fold tolerates an element reported as added although already present (Replace). The reactive Set.Replace diff defect of the design phase is repaired by the ds.Set.Replace fix (C11).', ref='2 C13'),

 'C14': dict(cat='model_checking', engine='S+H',
   technique='stateless model checking of the real derived reactive values under a controlled scheduler (preemption- or delay-bounded DFS with state cache), convergence oracle evaluated at quiescence; explicit-state search over all sequential histories of input writes and structural changes (EvictionState, SortedSet, DerivedSet+SubtractReactive, Counter+WaitGroup) compared with the defining function after every step',
   text='13 scenarios: DerivedVariable2/3 with writers on every input, InheritFrom, DerivedSet over two sources with Add/Delete/Replace and with a source being unsubscribed, SubtractReactive, Counter over two inputs (condition false and true for the zero value, Monitor racing with writes), SortedSet (adds vs weight changes; Delete vs weight change), WaitGroup (Add/Done/re-Add; never-empty), EvictionState (EvictionEvent/OnTrigger vs Evict). Every interleaving with <= 2 (thorough 3) deviations is executed; when nothing is enabled any more the derived value must equal its defining function of the current inputs (sorted order, heaviest/lightest, trigger iff last pending element done, exactly the events of slots <= last evicted fired); deadlock is a violation.',
   note='Trusted: shim fidelity; convergence judged at quiescence only. One genuine defect recorded in known_findings.json (SortedSet Delete vs weight change lock inversion), one repaired (reactive Set.Replace double-counted kept elements).', ref='2 C14'),

 'C15': dict(cat='model_checking', engine='S+H',
   technique='stateless model checking of the real event/promise/notifier code under a controlled scheduler (preemption-bounded DFS, all interleavings with state cache for the 2-thread scenarios); exhaustive sequential histories for the value notifier',
   text='S: 16 scenarios - Trigger x2 racing Hook/Unhook (call counts judged against recorded call/return intervals, attachment order), WithMaxTriggerCount(1|2) on the event and on a hook under 3 concurrent triggers, a hook that unhooks itself, LinkTo re-linking racing triggers of old and new target, two concurrent LinkTo calls, a pooled hook on a 1-worker pool (checked after the pool drained), promise Event/Event1 Trigger vs OnTrigger vs unsubscribe, value notifier Wait vs Notify vs Deregister and two listener generations. H: every sequential history up to depth 6 (thorough 7) of Listener/Notify/Wait(cancelled|live ctx)/Deregister over 2 values and 3 listeners: Wait succeeds only if Notify(value) was called between creation and deregistration.',
   note='Trusted: shim fidelity incl. select; Event2..9 are generated from the template of Event1 and not exercised separately. Two genuine defects repaired (fix: commits in runtime/valuenotifier).', ref='2 C15'),

 'C18': dict(cat='model_checking', engine='S',
   technique='stateless model checking of the real timed Queue/Executor/TaskExecutor under a controlled scheduler with a virtual clock (timer firings are explorer-owned events; early firing is a bounded deviation)',
   text='21 scenarios: Queue Add/Poll with 2 pollers, Cancel racing Poll, Cancel before Poll, Shutdown with every flag combination racing Add and a poller, max size; Executor with 1-2 workers (tasks then Shutdown, Cancel before/racing the due time, Shutdown(CancelPendingElements)); TaskExecutor (replacement, callback re-scheduling its own id, third schedule, Cancel racing the due time, re-schedule while the previous callback runs). Every interleaving with <= 2 (thorough 3) deviations. Oracle: at most one delivery, virtual time at delivery >= scheduled time unless IgnorePendingTimeouts, an element whose Cancel returned before the delivery decision is never delivered, pending elements are delivered before Shutdown() returns, pollers/Shutdown terminate, replaced tasks never start after the replacing call returned, Cancel(id) results consistent with what runs afterwards.',
   note='Trusted: vtime models timers and time.Now (virtual clock instead of wall clock); delivery/cancel events are logged atomically with the deciding select/close. Three genuine defects repaired (fix: commits).', ref='2 C18'),

 'C01': dict(cat='exploration', engine='I',
   technique='exhaustive enumeration of a run-time type-shape grammar x boundary-value alphabets x validation on/off; all compositions of the encoded length into read chunks for the stream helpers',
   text='Type shapes are built at run time with reflect.StructOf/SliceOf/ArrayOf/MapOf/PointerTo from a catalogue of ~70 field kinds (all numeric kinds, bool, strings and byte slices with uint8/16/32 prefixes and min/max bounds, byte arrays, big.Int, time, custom Serializable with/without type code, slices, arrays, maps, nested/pointer/optional/embedded/inlined structs, interfaces with uint8 and uint32 type codes, named slice types with lexical-order/no-duplicates/at-most-one-of-each-type/must-occur rules): every kind alone, pairs, and every kind nested as struct field, optional pointer, slice element and map value. For every shape the cross product of per-leaf boundary alphabets (capped per shape, cap reported) is encoded and decoded with and without validation: Decode(Encode(v)) == v up to nil/empty and imposed ordering, consumed == produced bytes, repeated encodes identical; JSON round trip for values JSON can express; every stream Write*/Read* pair is read back through every composition of its encoding into read chunks (<= 10 bytes quick, 12 thorough; 1-/2-cut splittings above), with and without io.EOF on the last chunk.',
   note='Trusted: canonical comparison (nil==empty, UnixNano). Map-iteration-order independence is only sampled (4 repeats). One genuine defect repaired (stream.ReadBytes), one recorded (arrays of non-byte elements cannot be decoded).', ref='2 C01'),
 'C02': dict(cat='exploration', engine='I',
   technique='exhaustive enumeration of short hostile byte strings and of the single-fault neighbourhood of valid encodings / JSON documents against every decoder, with a per-call no-panic / consumed-bytes / measured-allocation oracle',
   text='For every target shape of the C01 grammar and validation on/off: all byte strings of length <= 4 (thorough 6) over {00,01,02,7f,80,ff}; every single-byte substitution, truncation and extension of every valid encoding; for JSON every top-level atom and every single-subtree replacement by each of 15 atoms (or a missing key) of well-shaped documents through JSONDecode and MapDecode; the same strings plus hostile full-width prefixes through 50+ primitive decoders (Deserializer Read*, stream Read* with all four prefix widths and whole/bytewise readers, typeutils, SerializableOrderedMap.Decode). Per call: no panic, consumed <= supplied, TotalAlloc delta <= 256 KiB + 64 x len(input), element-decoder calls <= len(input)+1.',
   note='Allocation is measured (runtime.MemStats around each call), not proved; allocations below the 256 KiB noise floor (e.g. those a uint16 prefix can cause) are not decided; iteration bounded only by zero-size elements is not decided. Three genuine defects repaired, one recorded (array decode panic).', ref='2 C02'),
 'C03': dict(cat='exploration', engine='I',
   technique='exhaustive enumeration against an independent reference encoder (forward) and re-encoding of every accepted input of an exhaustively enumerated byte-string space (reverse)',
   text='Forward: for every (shape, value, validation mode) of the C01 grammar that Encode accepts the output is compared byte for byte with a reference encoder written independently from the documented layout (LE numbers, 0/1 bools, prefix widths, uint8/uint32 type codes, uint32 optional marker, 32-byte LE uint256, ns timestamps, map entries sorted by key||value bytes, lexical ordering); a value the layout cannot express (length >= 2^prefix, bound violation under validation) must not be accepted. Reverse: every byte string of length <= 4 (thorough 6) over the 6-byte alphabet and the complete single-byte mutation/truncation/extension neighbourhood of every valid encoding is fed to Decode with validation; whenever it is accepted consuming n bytes the decoded value must re-encode with validation to exactly b[:n].',
   note='Trusted: the reference encoder in props/serixgen is the specification. Inputs with saturated timestamps are excluded as in the statement. Shapes containing arrays of non-byte elements are skipped (they cannot be decoded, C01/C02 known finding).', ref='2 C03'),
}
na_reason = 'check not built yet in this round (engine exists; see DESIGN.md section 9 for the order of work)'
HB = {'C06', 'C07', 'C09', 'C10', 'C11', 'C12', 'C13', 'C14', 'C15', 'C16', 'C17', 'C20'}
for pid in HB:
    claimed[pid]['technique'] += '; every scenario is explored a second time in a race-detector build (scheduler hand-offs hidden from the detector, shims report the real happens-before edges): a data race in an explored schedule is a violation data-race|f1|f2'
EXTRA = {
 'C07': '; two further enumerations: intervals at the top of the uint64 range, and two Sequence objects taking turns through clean Releases',
 'C09': '; a second flavour runs the map inside one realm of a shared database next to a sibling map; two concurrent-reader scenarios under the schedule explorer',
 'C10': '; five two-/three-thread scenarios on the thread-safe flavour under the schedule explorer (ring stays well formed)',
 'C12': '; concurrent scenarios for the PriorityQueue removal handles, the thread-safe Stack, ShrinkingMap.Shrink and IndexedStorage.Get under the schedule explorer',
}
for pid, t in EXTRA.items():
    claimed[pid]['technique'] += t
checks = []
for p in props:
    pid = p['id']
    if pid not in claimed: continue
    c = claimed[pid]
    checks.append({
        'property_id': pid,
        'quick_cmd': f'./check {pid} quick',
        'thorough_cmd': f'./check {pid} thorough',
        'evidence_file': f'/verif/evidence/{pid}.json',
        'replay_cmd_template': f'./check {pid} quick --replay {{path}}',
        'engine': c['engine'],
        'level_claimed': {'category': c['cat'], 'text': c['text'], 'design_ref': 'DESIGN.md section ' + c['ref']},
        'level_note': c['note'],
        'technique': c['technique'],
    })
m = {
 'version': 1,
 'setup_cmd': './setup.sh',
 'hooks': {
   'guard': 'verif',
   'enable': 'no source change in /repo: tools/vinstr rewrites sync/atomic/time/context imports, go statements and channel operations into a go build -overlay file set on every check run (build/overlay-<id>/overlay.json), built with -tags verif',
   'baseline_off_cmd': 'for m in ads app apputils codegen constraints core crypto db ds ierrors kvstore lo log logger runtime serializer sql stringify web; do (cd /repo/$m && GOFLAGS=-mod=mod go test -json -vet=off -count=1 -timeout 25m ./...); done',
   'source_commits': [],
   'add_only': True,
 },
 'engines': [
   {'name': 'S', 'path': 'vrt/ vsync/ vatomic/ vtime/ vcontext/ engine/sched/ tools/vinstr/', 'serves_properties': sorted(k for k, v in claimed.items() if 'S' in v['engine']), 'kind_free_text': 'controlled scheduler + stateless DFS over interleavings of the real code (deviation bounding, happens-before state cache)'},
   {'name': 'H', 'path': 'engine/hist/', 'serves_properties': sorted(k for k, v in claimed.items() if 'H' in v['engine']), 'kind_free_text': 'explicit-state search over operation histories of the real objects against reference models, with fault/crash enumeration'},
   {'name': 'S+HB', 'path': 'vrace/ (with engine S)', 'serves_properties': sorted(HB | {'C05'}), 'kind_free_text': 'engine S built with -race: the controlled scheduler is invisible to the detector (RaceDisable around hand-offs), the shims annotate the happens-before edges of the modelled primitives; every explored schedule is judged for data races'},
   {'name': 'I', 'path': 'props/serixgen/ props/c01 props/c02 props/c03 props/c19', 'serves_properties': sorted(k for k, v in claimed.items() if 'I' in v['engine']), 'kind_free_text': 'complete enumeration of finite input spaces'},
 ],
 'checks': checks,
 'not_applicable': [{'property_id': p['id'], 'reason': na_reason} for p in props if p['id'] not in claimed],
 'notes': 'All checks rebuild from /repo working tree (replace directives + overlay). known_findings.json lists genuine defects recorded rather than repaired.',
}
json.dump(m, open(os.path.join(V, 'MANIFEST.json'), 'w'), indent=1)
print('claimed', len(checks), 'not_applicable', len(m['not_applicable']))
