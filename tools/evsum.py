#!/usr/bin/env python3
import json,sys
e=json.load(open(f'/verif/evidence/{sys.argv[1]}.json'))
for p in e['coverage']['parts']:
    d=p.get('detail') or {}
    if not isinstance(d,dict) or 'bounds' not in d:
        print(p['name'],{k:p[k] for k in ('states','transitions','traces','evaluations','distinct','exhaustive','wall_s')}, p.get('error','')[:300]); continue
    bs=[(b['bound'],b['executions'],b['states'],b['completed'],round(b['wall_s'],1)) for b in d.get('bounds',[])]
    u=d.get('unbounded')
    print(p['name'],bs,'UNB',(u['executions'],u['states'],u['completed'],round(u['wall_s'],1)) if u else None,'obs',d.get('distinct_observations'), p.get('error','')[:300])
