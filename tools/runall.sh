#!/bin/bash
# runs every claimed quick check on the current tree and prints one line per property
cd /verif
for id in $(jq -r '.checks[].property_id' MANIFEST.json); do
  out=$(./check $id ${1:-quick} 2>&1); rc=$?
  echo "$id rc=$rc $(echo "$out" | grep -E "^$id tier" | tail -1)"
  [ $rc -ne 0 ] && echo "$out" | grep -E "VIOLATION|signature|INFRA" | head -5
done
