// Package vrt is the controlled runtime of the schedule explorer (engine S).
//
// Exactly one controlled thread runs at a time.  Every visible operation of the
// shim packages (vsync, vatomic, vtime, vcontext, channel helpers) calls Point
// before it takes effect; Point publishes the pending operation and lets the
// scheduler logic decide who runs next.  All decisions with more than one
// alternative are recorded as choice points, so that a whole execution is
// identified by its list of choices and can be replayed.
//
// Outside an execution (E == nil) the shims degrade to an uncontended
// pass-through; an operation that would block panics with ErrWouldBlock.
package vrt

import (
	"fmt"
	"runtime"
	"runtime/debug"
	"sort"
	"strings"
	"sync"
	"unsafe"

	"verif/vrace"
)

// Outcome of one execution.
type Outcome int

const (
	Running  Outcome = iota
	OK               // main returned
	Deadlock         // no thread enabled, nothing for ENV to do, main not finished
	Panicked         // a controlled thread panicked
	Horizon          // step horizon exceeded
	Pruned           // stopped by the state cache
	Diverged         // replay of the prefix did not reproduce the recorded points
	Livelock         // nothing but forced ENV firings (timers) has kept the execution going for LivelockEnvStreak firings in a row
)

// LivelockEnvStreak is the number of consecutive forced ENV firings, without a single decision at which two threads
// could run in between, after which an execution is declared a livelock: the scheduler never had a say (at most the
// moment at which a timer fires was open), and still the execution does not come to rest - every thread that exists is
// blocked for good or spins on a timer.
const LivelockEnvStreak = 64

func (o Outcome) String() string {
	return [...]string{"running", "ok", "deadlock", "panic", "horizon", "pruned", "diverged", "livelock"}[o]
}

// ChoicePoint is one recorded decision.
type ChoicePoint struct {
	N      int    // number of alternatives
	Chosen int    // index taken
	Costs  []int8 // deviation cost of every alternative (Costs[0]==0)
	Sig    uint64 // descriptor hash of the alternatives (replay check)
	Kind   byte   // 's' schedule, 'c' select case, 'u' user/map-order choice
	Step   int
}

// Event is one entry of the global observation log.
type Event struct {
	Step int
	Tid  int
	Kind string
	Args []any
}

func (ev Event) String() string {
	return fmt.Sprintf("%d:T%d:%s%v", ev.Step, ev.Tid, ev.Kind, ev.Args)
}

// Thread is a controlled thread.
type Thread struct {
	ID      int
	wake    chan struct{}
	exited  chan struct{}
	done    bool
	started bool
	pkind   string
	pobj    int
	enabled func() bool
	// channel rendezvous
	cases     []SelCase
	hasDef    bool
	matched   bool
	waiting   bool
	inQuiesce bool
	Where     string
	selIdx    int
	selVal    any
	selOK     bool
	pendSeq   int
	hash      uint64
	Name      string
	isDaemon  bool
	raceTok   [2]uint64 // race detector token: released when the thread ends, acquired by Join
}

// Exec is one execution.
type Exec struct {
	Gen      uint32
	threads  []*Thread
	cur      *Thread
	Prefix   []int
	Points   []ChoicePoint
	Steps    int
	HorizonN int
	Outcome  Outcome
	aborting bool
	doneCh   chan struct{}
	finished bool
	stackReq bool
	stackAck chan struct{}
	quietTok [2]uint64 // race detector token: released by every thread at every point, acquired by Quiesce/Settle

	PanicVal   any
	PanicStack string
	PanicTid   int
	Blocked    []string // descriptions of blocked ops at deadlock
	DivergeMsg string

	Log   []Event
	Fails []Failure

	nextObj  int
	chans    U64Map // channel identity -> index into chanList
	chanList []*chanState
	pendSeq  int

	// virtual clock
	now       int64
	timers    []*vtimer
	timerSeq  int
	EnvBudget int // voluntary ENV firings allowed
	// BlockSwitchCost is the cost of not taking the default thread when the running
	// thread is blocked (0 = preemption bounding, 1 = delay bounding); SelectCost the
	// cost of a non-default ready select case.
	BlockSwitchCost int8
	// ReleasePoints makes release operations (Unlock, RUnlock, WaitGroup.Done) scheduling points as well: the code that
	// follows a release up to the thread's next visible operation can then be interleaved with other threads (needed to
	// see what an unsynchronised access after the release does; more schedules).
	ReleasePoints bool
	SelectCost    int8
	envUsed       int
	forcedEnv     int // consecutive forced ENV firings since the last decision with two runnable threads
	EnvFired      int

	// state cache hook; returns true if the state has been seen (prune)
	Visit func(e *Exec, key uint64, cost int) bool
	cost  int

	// statistics
	Contended int // choice points with >1 enabled thread
	lastTid   int

	wg sync.WaitGroup

	Data    map[string]any // scenario scratch
	objHash U64Map
	TraceOn bool
	env     *Thread
	ptrIDs  U64Map
	ptrKeep []unsafe.Pointer
	Trace   []string
}

// E is the current execution (nil outside of one).
var E *Exec

var genCounter uint32

// ErrWouldBlock is the panic value for a blocking operation outside an execution.
type ErrWouldBlock struct{ What string }

func (e ErrWouldBlock) Error() string { return "vrt: sequential deadlock: " + e.What }

// Config for Run.
type Config struct {
	Prefix                      []int
	Horizon                     int
	EnvBudget                   int
	Visit                       func(e *Exec, key uint64, cost int) bool
	Trace                       bool
	BlockSwitchCost, SelectCost int8
	ReleasePoints               bool
}

// Run executes main as thread 0 under the controlled scheduler.
func Run(cfg Config, main func()) *Exec {
	if E != nil {
		panic("vrt: nested Run")
	}
	genCounter++
	e := &Exec{
		Gen:             genCounter,
		Prefix:          cfg.Prefix,
		HorizonN:        cfg.Horizon,
		doneCh:          make(chan struct{}, 1),
		stackAck:        make(chan struct{}),
		EnvBudget:       cfg.EnvBudget,
		Visit:           cfg.Visit,
		Data:            map[string]any{},
		TraceOn:         cfg.Trace,
		BlockSwitchCost: cfg.BlockSwitchCost,
		ReleasePoints:   cfg.ReleasePoints,
		SelectCost:      cfg.SelectCost,
	}
	if e.HorizonN == 0 {
		e.HorizonN = 20000
	}
	E = e
	t0 := e.newThread(main)
	e.cur = t0
	t0.wake <- struct{}{}
	<-e.doneCh
	// abort everything that is still parked, one at a time
	for i := 0; i < len(e.threads); i++ { // threads may not grow in abort mode
		t := e.threads[i]
		select {
		case <-t.exited:
			continue
		default:
		}
		e.cur = t
		t.wake <- struct{}{}
		<-t.exited
	}
	e.wg.Wait()
	E = nil
	return e
}

func (e *Exec) newThread(f func()) *Thread {
	t := &Thread{ID: len(e.threads), wake: make(chan struct{}, 1), exited: make(chan struct{}), pkind: "start", pobj: -1}
	t.hash = mix(0x9e3779b97f4a7c15, uint64(t.ID)+1)
	e.threads = append(e.threads, t)
	e.wg.Add(1)
	go func() {
		defer e.wg.Done()
		defer close(t.exited)
		vrace.Disable() // the scheduler's hand-offs are not synchronisation of the program under test
		<-t.wake
		vrace.Enable()
		if e.aborting {
			return
		}
		t.started = true
		normal := false
		defer func() {
			r := recover()
			vrace.Release(unsafe.Pointer(&t.raceTok))
			vrace.ReleaseMerge(unsafe.Pointer(&e.quietTok))
			t.done = true
			if e.aborting {
				return
			}
			if r != nil {
				e.PanicVal = r
				e.PanicStack = string(debug.Stack())
				e.PanicTid = t.ID
				e.finish(Panicked)
				return
			}
			if !normal {
				// Goexit called by user code: treat like a return
			}
			if t.ID == 0 {
				e.finish(OK)
				return
			}
			e.reschedule(nil)
		}()
		f()
		normal = true
	}()
	return t
}

// Go starts f as a new controlled thread.
func Go(f func()) {
	e := E
	if e == nil {
		go f()
		return
	}
	if e.aborting {
		return
	}
	t := e.newThread(f)
	// the child's history starts from the parent's
	t.hash = mix(e.cur.hash, uint64(t.ID)+0x1234567)
	e.cur.hash = mix(e.cur.hash, 0xabcdef)
}

func (e *Exec) finish(o Outcome) {
	if e.finished {
		return
	}
	e.finished = true
	e.Outcome = o
	e.aborting = true
	vrace.Disable()
	e.doneCh <- struct{}{}
	vrace.Enable()
}

func (t *Thread) park(e *Exec) {
	vrace.Disable()
	for {
		<-t.wake
		if e.stackReq {
			t.Where = repoFrame()
			e.stackAck <- struct{}{}
			continue
		}
		break
	}
	vrace.Enable()
	if e.aborting {
		runtime.Goexit()
	}
}

// repoFrame returns the innermost function of hive.go on the calling goroutine's stack.
func repoFrame() string {
	pcs := make([]uintptr, 64)
	n := runtime.Callers(2, pcs)
	frames := runtime.CallersFrames(pcs[:n])
	for {
		f, more := frames.Next()
		if strings.HasPrefix(f.Function, "github.com/iotaledger/hive.go/") {
			fn := strings.TrimPrefix(f.Function, "github.com/iotaledger/hive.go/")
			if i := strings.LastIndex(fn, "/"); i >= 0 {
				fn = fn[i+1:]
			}
			return fn
		}
		if !more {
			return "harness"
		}
	}
}

// collectWhere asks every parked, unfinished thread where it is blocked.
func (e *Exec) collectWhere(self *Thread) {
	e.stackReq = true
	for _, o := range e.threads {
		if o.done || !o.started {
			continue
		}
		if o == self {
			o.Where = repoFrame()
			continue
		}
		vrace.Disable()
		o.wake <- struct{}{}
		<-e.stackAck
		vrace.Enable()
	}
	e.stackReq = false
}

// Aborting reports whether the current execution is being torn down.
func Aborting() bool { return E != nil && E.aborting }

// Point announces a visible operation of the running thread and blocks until the
// scheduler lets the thread perform it.  enabled==nil means always enabled.
func Point(kind string, obj int, enabled func() bool) {
	e := E
	if e == nil {
		if enabled != nil && !enabled() {
			panic(ErrWouldBlock{kind})
		}
		return
	}
	if e.aborting {
		runtime.Goexit()
	}
	t := e.cur
	t.pkind, t.pobj, t.enabled = kind, obj, enabled
	if vrace.Enabled {
		vrace.ReleaseMerge(unsafe.Pointer(&e.quietTok))
	}
	e.Steps++
	if e.Steps > e.HorizonN {
		e.finish(Horizon)
		t.park(e)
	}
	e.reschedule(t)
	t.enabled = nil
	t.hash = mix(t.hash, hashStr(kind))
	if e.TraceOn {
		e.Trace = append(e.Trace, fmt.Sprintf("T%d %s #%d", t.ID, kind, obj))
	}
}

func (t *Thread) isEnabled() bool {
	if t.done {
		return false
	}
	if t.matched {
		return true
	}
	if t.enabled == nil {
		return true
	}
	return t.enabled()
}

// reschedule picks the next thread.  t is the calling thread (nil when it has
// just finished).  On return the calling goroutine is allowed to continue (or,
// for t==nil, to exit).
func (e *Exec) reschedule(t *Thread) {
	for {
		var opts []*Thread
		runningEnabled := false
		if t != nil && t.isEnabled() {
			opts = append(opts, t)
			runningEnabled = true
		}
		for _, o := range e.threads {
			if o != t && o.isEnabled() {
				opts = append(opts, o)
			}
		}
		envOK := len(e.timers) > 0
		voluntaryEnv := envOK && len(opts) > 0
		if voluntaryEnv && e.envUsed >= e.EnvBudget {
			envOK = false
		}
		n := len(opts)
		if envOK {
			n++
		}
		if len(opts) > 1 {
			e.forcedEnv = 0
		} else if n == 1 && len(opts) == 0 {
			e.forcedEnv++
		}
		if n == 0 || e.forcedEnv >= LivelockEnvStreak {
			e.collectWhere(t)
			e.Blocked = e.Blocked[:0]
			for _, o := range e.threads {
				if !o.done {
					e.Blocked = append(e.Blocked, fmt.Sprintf("T%d:%s@%s#%d", o.ID, o.pkind, o.Where, o.pobj))
				}
			}
			if n == 0 {
				e.finish(Deadlock)
			} else {
				e.finish(Livelock)
			}
			if t != nil {
				t.park(e)
			}
			return
		}
		// state cache: consulted at every scheduling decision past the prefix
		if e.Visit != nil && len(e.Points) >= len(e.Prefix) {
			key := e.stateKey(t)
			if e.Visit(e, key, e.cost) {
				e.finish(Pruned)
				if t != nil {
					t.park(e)
				}
				return
			}
		}
		choice := 0
		if n > 1 {
			if len(opts) > 1 {
				e.Contended++
			}
			costs := make([]int8, n)
			var sig uint64 = 1469598103934665603
			for i, o := range opts {
				if i > 0 {
					if runningEnabled {
						costs[i] = 1
					} else {
						costs[i] = e.BlockSwitchCost
					}
				}
				sig = mix(sig, uint64(o.ID)<<32|uint64(hashStr(o.pkind))&0xffffffff)
			}
			if envOK {
				if len(opts) > 0 {
					costs[n-1] = 1
				}
				sig = mix(sig, 0xe7)
			}
			choice = e.choose('s', n, costs, sig)
			if e.finished {
				if t != nil {
					t.park(e)
				}
				return
			}
		}
		if envOK && choice == n-1 {
			if voluntaryEnv {
				e.envUsed++
			}
			e.fireEnv()
			continue
		}
		next := opts[choice]
		if next == t {
			return
		}
		e.cur = next
		vrace.Disable()
		next.wake <- struct{}{}
		vrace.Enable()
		if t != nil {
			t.park(e)
		}
		return
	}
}

func (e *Exec) choose(kind byte, n int, costs []int8, sig uint64) int {
	idx := len(e.Points)
	c := 0
	if idx < len(e.Prefix) {
		c = e.Prefix[idx]
		if c >= n {
			e.DivergeMsg = fmt.Sprintf("choice %d: prefix wants alternative %d of %d", idx, c, n)
			e.finish(Diverged)
			return 0
		}
	}
	e.cost += int(costs[c])
	e.Points = append(e.Points, ChoicePoint{N: n, Chosen: c, Costs: costs, Sig: sig, Kind: kind, Step: e.Steps})
	return c
}

// Choose is an explorer-owned nondeterministic choice among n alternatives
// (alternative 0 is the default; every other one costs `cost` deviations).
func Choose(n int, cost int) int {
	e := E
	if e == nil || n <= 1 || e.aborting {
		return 0
	}
	costs := make([]int8, n)
	for i := 1; i < n; i++ {
		costs[i] = int8(cost)
	}
	c := e.choose('u', n, costs, mix(77, uint64(n)))
	if e.finished {
		e.cur.park(e)
	}
	e.cur.hash = mix(e.cur.hash, uint64(c)+0x5151)
	return c
}

// Released is called by the shims right after a release operation; a scheduling point if the execution asks for it.
func Released(kind string, obj int) {
	if e := E; e != nil && e.ReleasePoints && !e.aborting {
		Point(kind, obj, nil)
	}
}

// Yield is a pure scheduling point.
func Yield() { Point("yield", -1, nil) }

// NewObj hands out a deterministic object id.
func NewObj() int {
	if E == nil {
		return 0
	}
	E.nextObj++
	return E.nextObj
}

// Gen returns the generation of the current execution (0 outside).
func Gen() uint32 {
	if E == nil {
		return 0
	}
	return E.Gen
}

// Tid returns the id of the running controlled thread (-1 outside).
func Tid() int {
	if E == nil || E.cur == nil {
		return -1
	}
	return E.cur.ID
}

// Step returns the current step number.
func Step() int {
	if E == nil {
		return 0
	}
	return E.Steps
}

// Observe appends an event to the global, totally ordered observation log.
// It is a write to a shared pseudo-object, so two executions that reach the
// same cache key have the same log.
func Observe(kind string, args ...any) {
	e := E
	if e == nil {
		return
	}
	if e.aborting {
		return
	}
	tid := e.cur.ID
	e.Log = append(e.Log, Event{Step: e.Steps, Tid: tid, Kind: kind, Args: args})
	Touch(-2, true, hashStr(kind)^hashAny(args))
}

// Touch folds an access of object obj into the happens-before hashes.
func Touch(obj int, write bool, val uint64) {
	e := E
	if e == nil || e.cur == nil {
		return
	}
	t := e.cur
	oh, _ := e.objHash.Get(uint64(obj))
	t.hash = mix(mix(t.hash, uint64(obj)+0x77), mix(oh, val))
	if write {
		e.objHash.Put(uint64(obj), mix(t.hash, 0x3c3c))
	}
}

func (e *Exec) stateKey(running *Thread) uint64 {
	var k uint64 = 0xcbf29ce484222325
	for _, t := range e.threads {
		h := t.hash
		if t.done {
			h = mix(h, 0xdead)
		}
		if !t.started {
			h = mix(h, 0x57a7)
		}
		k = mix(k, h)
	}
	rid := uint64(0xffff)
	if running != nil {
		rid = uint64(running.ID)
	}
	k = mix(k, rid)
	k = mix(k, uint64(e.now))
	k = mix(k, uint64(e.envUsed))
	return k
}

// ThreadCount returns the number of threads created so far.
func (e *Exec) ThreadCount() int { return len(e.threads) }

// Cost returns the deviation cost accumulated so far.
func (e *Exec) Cost() int { return e.cost }

func mix(a, b uint64) uint64 {
	a ^= b + 0x9e3779b97f4a7c15 + (a << 6) + (a >> 2)
	a *= 0xff51afd7ed558ccd
	a ^= a >> 33
	return a
}

func hashStr(s string) uint64 {
	var h uint64 = 14695981039346656037
	for i := 0; i < len(s); i++ {
		h ^= uint64(s[i])
		h *= 1099511628211
	}
	return h
}

func hashAny(args []any) uint64 {
	if len(args) == 0 {
		return 0
	}
	return hashStr(fmt.Sprint(args...))
}

// HashPtr maps a pointer to a number that is stable across executions (first-seen order).
func HashPtr(p unsafe.Pointer) uint64 {
	if p == nil || E == nil {
		return 0
	}
	id, ok := E.ptrIDs.Get(uint64(uintptr(p)))
	if !ok {
		id = uint64(E.ptrIDs.Len() + 1)
		E.ptrIDs.Put(uint64(uintptr(p)), id)
		E.ptrKeep = append(E.ptrKeep, p) // pinned: a collected object's address must not be reused within the execution
	}
	return id
}

// HashOf is exported for shims.
func HashOf(v any) uint64 { return hashStr(fmt.Sprint(v)) }

// TopRepoFrame extracts the first stack frame inside hive.go from a stack dump.
func TopRepoFrame(stack string) string {
	lines := strings.Split(stack, "\n")
	for _, l := range lines {
		l = strings.TrimSpace(l)
		if strings.HasPrefix(l, "github.com/iotaledger/hive.go/") {
			if i := strings.LastIndex(l, "("); i > 0 {
				l = l[:i]
			}
			return strings.TrimPrefix(l, "github.com/iotaledger/hive.go/")
		}
	}
	return ""
}

// BlockedSet returns the sorted blocked-operation descriptions without thread ids' object numbers.
func (e *Exec) BlockedSet() []string {
	out := append([]string{}, e.Blocked...)
	sort.Strings(out)
	return out
}

// Failure is an oracle failure raised from inside a scenario.
type Failure struct {
	Signature string
	Message   string
	Step      int
}

// Fail records an oracle failure of the current execution (the execution goes on).
func Fail(signature, format string, args ...any) {
	e := E
	if e == nil || e.aborting {
		return
	}
	e.Fails = append(e.Fails, Failure{signature, fmt.Sprintf(format, args...), e.Steps})
}

// Handle of a spawned thread.
type Handle struct{ t *Thread }

// Spawn starts f as a controlled thread and returns a handle to join it.
func Spawn(f func()) Handle {
	e := E
	if e == nil {
		panic("vrt.Spawn outside of an execution")
	}
	if e.aborting {
		runtime.Goexit()
	}
	Go(f)
	return Handle{e.threads[len(e.threads)-1]}
}

// Join blocks until the thread has finished.
func (h Handle) Join() {
	Point("join", -1, func() bool { return h.t.done })
	vrace.Acquire(unsafe.Pointer(&h.t.raceTok))
	E.cur.hash = mix(E.cur.hash, h.t.hash)
}

// Done reports whether the thread has finished.
func (h Handle) Done() bool { return h.t.done }

// Par runs the functions as parallel threads and joins them.
func Par(fs ...func()) {
	hs := make([]Handle, len(fs))
	for i, f := range fs {
		hs[i] = Spawn(f)
	}
	for _, h := range hs {
		h.Join()
	}
}

// Quiesce blocks the calling thread until no other thread can run (forced ENV
// firings included), i.e. until the rest of the system has come to rest.
func Quiesce() {
	e := E
	if e == nil {
		return
	}
	t := e.cur
	Point("quiesce", -1, func() bool {
		if t.inQuiesce {
			return false
		}
		t.inQuiesce = true
		defer func() { t.inQuiesce = false }()
		for _, o := range e.threads {
			if o != t && o.isEnabled() {
				return false
			}
		}
		return len(e.timers) == 0
	})
	vrace.Acquire(unsafe.Pointer(&e.quietTok))
	t.hash = mix(t.hash, e.stateKey(nil))
}

// Settle blocks the calling thread until no other thread can run at the current
// virtual time (pending timers are left alone, unlike Quiesce).
func Settle() {
	e := E
	if e == nil {
		return
	}
	t := e.cur
	Point("settle", -1, func() bool {
		if t.inQuiesce {
			return false
		}
		t.inQuiesce = true
		defer func() { t.inQuiesce = false }()
		for _, o := range e.threads {
			if o != t && o.isEnabled() {
				return false
			}
		}
		return true
	})
	vrace.Acquire(unsafe.Pointer(&e.quietTok))
	t.hash = mix(t.hash, e.stateKey(nil))
}
