package vrt

import (
	"fmt"
	"sort"
)

// KV is one map entry.
type KV[K comparable, V any] struct {
	K K
	V V
}

// OrderedMap returns the entries of m in an explorer-owned order: sorted by the
// printed key by default; every other rotation/permutation start is a deviation
// of cost 1 (the choice is which entry comes first; the rest stays sorted).
func OrderedMap[K comparable, V any](m map[K]V) []KV[K, V] {
	out := make([]KV[K, V], 0, len(m))
	for k, v := range m {
		out = append(out, KV[K, V]{k, v})
	}
	sort.Slice(out, func(i, j int) bool { return fmt.Sprint(out[i].K) < fmt.Sprint(out[j].K) })
	if E == nil || len(out) < 2 {
		return out
	}
	// selection by successive choices: full permutation space, default = sorted
	for i := 0; i < len(out)-1; i++ {
		c := Choose(len(out)-i, 1)
		if c != 0 {
			x := out[i+c]
			copy(out[i+1:i+c+1], out[i:i+c])
			out[i] = x
		}
	}
	return out
}
