package vrt

import (
	"reflect"
	"unsafe"

	"verif/vrace"
)

// Channels are emulated in a side table keyed by channel identity.  The real
// channel only provides identity, element type and capacity (Close additionally
// closes the real channel so that uninstrumented observers see it).

type chanState struct {
	id     int
	cap    int
	buf    []any
	closed bool
	keep   unsafe.Pointer
	tok    [2]uint64 // race detector token: every completed operation on the channel acquires and releases it
}

// raceSync orders the calling thread after every earlier completed operation on the channel and before every later
// one (an over-approximation of the channel rules of the memory model: it can hide a race between two senders, it
// never invents one).
func (cs *chanState) raceSync() {
	if vrace.Enabled && cs != nil {
		vrace.Acquire(unsafe.Pointer(&cs.tok))
		vrace.ReleaseMerge(unsafe.Pointer(&cs.tok))
	}
}

// SelCase is one case of a select.
type SelCase struct {
	Send bool
	ch   *chanState
	ptr  unsafe.Pointer
	cap  int
	Val  any
	real any // the real channel (used only outside of executions)
}

// SelResult is returned by Select.
type SelResult struct {
	I  int // index of the case that fired, -1 for default
	V  any
	OK bool
}

func chanPtr[T any](ch <-chan T) unsafe.Pointer {
	return *(*unsafe.Pointer)(unsafe.Pointer(&ch))
}

func chanPtrS[T any](ch chan<- T) unsafe.Pointer {
	return *(*unsafe.Pointer)(unsafe.Pointer(&ch))
}

func (e *Exec) chanOf(ptr unsafe.Pointer, capacity int) *chanState {
	if ptr == nil {
		return nil
	}
	if i, ok := e.chans.Get(uint64(uintptr(ptr))); ok {
		return e.chanList[i]
	}
	// keep pins the real channel for the rest of the execution: the table is keyed by address, and a collected channel's
	// address could otherwise be handed to a channel created later in the same execution
	cs := &chanState{id: NewObj(), cap: capacity, keep: ptr}
	e.chans.Put(uint64(uintptr(ptr)), uint64(len(e.chanList)))
	e.chanList = append(e.chanList, cs)
	return cs
}

func (e *Exec) chanLookup(ptr unsafe.Pointer) *chanState {
	if i, ok := e.chans.Get(uint64(uintptr(ptr))); ok {
		return e.chanList[i]
	}
	return nil
}

// RecvCase builds a receive case.
func RecvCase[T any](ch <-chan T) SelCase {
	return SelCase{ptr: chanPtr(ch), cap: cap(ch), real: ch}
}

// SendCase builds a send case.
func SendCase[T any](ch chan<- T, v T) SelCase {
	return SelCase{Send: true, ptr: chanPtrS(ch), cap: cap(ch), Val: v, real: ch}
}

// Val converts the value received by Select back to the element type of ch.
func Val[T any](ch <-chan T, r SelResult) T {
	if r.V == nil {
		var z T
		return z
	}
	return r.V.(T)
}

// Send is `ch <- v`.
func Send[T any](ch chan<- T, v T) {
	if E == nil {
		select {
		case ch <- v:
			return
		default:
			panic(ErrWouldBlock{"chan.send"})
		}
	}
	doSelect(false, []SelCase{{Send: true, ptr: chanPtrS(ch), cap: cap(ch), Val: v}})
}

// Recv is `<-ch`.
func Recv[T any](ch <-chan T) T {
	if E == nil {
		select {
		case v := <-ch:
			return v
		default:
			panic(ErrWouldBlock{"chan.recv"})
		}
	}
	r := doSelect(false, []SelCase{{ptr: chanPtr(ch), cap: cap(ch)}})
	return Val(ch, r)
}

// Recv2 is `v, ok := <-ch`.
func Recv2[T any](ch <-chan T) (T, bool) {
	if E == nil {
		select {
		case v, ok := <-ch:
			return v, ok
		default:
			panic(ErrWouldBlock{"chan.recv"})
		}
	}
	r := doSelect(false, []SelCase{{ptr: chanPtr(ch), cap: cap(ch)}})
	return Val(ch, r), r.OK
}

// Close is `close(ch)`.
func Close[T any](ch chan T) {
	if E == nil {
		close(ch)
		return
	}
	e := E
	var ro <-chan T = ch
	ptr := chanPtr(ro)
	if ptr == nil {
		panic("close of nil channel")
	}
	Point("chan.close", -1, nil)
	cs := e.chanOf(ptr, cap(ch))
	if cs.closed {
		panic("close of closed channel")
	}
	cs.closed = true
	cs.raceSync()
	Touch(cs.id, true, 0xc105e)
	// blocked senders panic when they run; receivers become enabled by themselves
	func() {
		defer func() { _ = recover() }()
		close(ch)
	}()
}

// IsClosed reports the emulated closed state (harness helper).
func IsClosed[T any](ch <-chan T) bool {
	if E == nil {
		select {
		case _, ok := <-ch:
			return !ok
		default:
			return false
		}
	}
	cs := E.chanLookup(chanPtr(ch))
	return cs != nil && cs.closed
}

// Select runs a select statement over the given cases.
func Select(hasDefault bool, cases ...SelCase) SelResult {
	if E == nil {
		return nativeSelect(hasDefault, cases)
	}
	return doSelect(hasDefault, cases)
}

// nativeSelect runs the select on the real channels (outside of executions all
// channel operations act on the real channels, so this is consistent).
func nativeSelect(hasDefault bool, cases []SelCase) SelResult {
	rc := make([]reflect.SelectCase, 0, len(cases)+1)
	for _, c := range cases {
		if c.Send {
			rc = append(rc, reflect.SelectCase{Dir: reflect.SelectSend, Chan: reflect.ValueOf(c.real), Send: reflect.ValueOf(c.Val)})
		} else {
			rc = append(rc, reflect.SelectCase{Dir: reflect.SelectRecv, Chan: reflect.ValueOf(c.real)})
		}
	}
	if hasDefault {
		rc = append(rc, reflect.SelectCase{Dir: reflect.SelectDefault})
	} else {
		// refuse to hang the process: nothing ready means a sequential deadlock
		probe := append(append([]reflect.SelectCase{}, rc...), reflect.SelectCase{Dir: reflect.SelectDefault})
		i, v, ok := reflect.Select(probe)
		if i == len(rc) {
			panic(ErrWouldBlock{"select"})
		}
		return nativeResult(cases, i, v, ok)
	}
	i, v, ok := reflect.Select(rc)
	if hasDefault && i == len(cases) {
		return SelResult{I: -1}
	}
	return nativeResult(cases, i, v, ok)
}

func nativeResult(cases []SelCase, i int, v reflect.Value, ok bool) SelResult {
	if cases[i].Send {
		return SelResult{I: i}
	}
	var val any
	if ok && v.IsValid() {
		val = v.Interface()
	}
	return SelResult{I: i, V: val, OK: ok}
}

// partner finds a thread (other than self) that is registered as waiting with an
// unmatched case of the opposite direction on cs; the one waiting longest (FIFO,
// like the runtime's sendq/recvq).
func (e *Exec) partner(self *Thread, cs *chanState, wantSend bool) (*Thread, int) {
	var best *Thread
	bi := -1
	for _, o := range e.threads {
		if o == self || o.done || o.matched || !o.waiting {
			continue
		}
		for i, c := range o.cases {
			if c.ch == cs && c.Send == wantSend {
				if best == nil || o.pendSeq < best.pendSeq {
					best, bi = o, i
				}
				break
			}
		}
	}
	return best, bi
}

func (e *Exec) caseReady(self *Thread, c *SelCase) bool {
	cs := c.ch
	if cs == nil {
		return false
	}
	if c.Send {
		if cs.closed {
			return true // will panic
		}
		if len(cs.buf) < cs.cap {
			return true
		}
		p, _ := e.partner(self, cs, false)
		return p != nil
	}
	if len(cs.buf) > 0 || cs.closed {
		return true
	}
	p, _ := e.partner(self, cs, true)
	return p != nil
}

// doSelect models a (possibly single-case) select in the two phases the Go
// runtime has: arrival (try to complete against the buffer or an already
// waiting partner, else take default, else enqueue) and waiting.
func doSelect(hasDefault bool, cases []SelCase) SelResult {
	e := E
	if e.aborting {
		Point("select", -1, nil) // Goexit
	}
	t := e.cur
	for i := range cases {
		cases[i].ch = e.chanOf(cases[i].ptr, cases[i].cap)
	}
	kind := "select"
	obj := -1
	if len(cases) == 1 && !hasDefault {
		if cases[0].Send {
			kind = "chan.send"
		} else {
			kind = "chan.recv"
		}
		if cases[0].ch != nil {
			obj = cases[0].ch.id
		}
	}
	Point(kind, obj, nil) // arrival
	if r, ok := e.tryCases(t, cases); ok {
		return r
	}
	if hasDefault {
		t.hash = mix(t.hash, 0xdefa)
		return SelResult{I: -1}
	}
	e.pendSeq++
	t.pendSeq = e.pendSeq
	t.cases = cases
	t.matched = false
	t.waiting = true
	for i := range cases {
		cases[i].ch.raceSync()
	}
	defer func() { t.cases = nil; t.matched = false; t.waiting = false }()
	for {
		Point(kind+".wait", obj, func() bool {
			if t.matched {
				return true
			}
			for i := range cases {
				if e.caseReady(t, &cases[i]) {
					return true
				}
			}
			return false
		})
		if t.matched {
			r := SelResult{I: t.selIdx, V: t.selVal, OK: t.selOK}
			Touch(cases[t.selIdx].ch.id, true, 0x3a7c)
			cases[t.selIdx].ch.raceSync()
			return r
		}
		if r, ok := e.tryCases(t, cases); ok {
			return r
		}
	}
}

// tryCases completes one ready case (explorer's choice among several) if any.
func (e *Exec) tryCases(t *Thread, cases []SelCase) (SelResult, bool) {
	var ready []int
	for i := range cases {
		if e.caseReady(t, &cases[i]) {
			ready = append(ready, i)
		}
	}
	if len(ready) == 0 {
		return SelResult{}, false
	}
	pick := ready[0]
	if len(ready) > 1 {
		pick = ready[Choose(len(ready), int(e.SelectCost))]
	}
	c := &cases[pick]
	cs := c.ch
	Touch(cs.id, true, uint64(pick)+0x5e1)
	cs.raceSync()
	if c.Send {
		if cs.closed {
			t.cases = nil
			t.waiting = false
			panic("send on closed channel")
		}
		if p, pi := e.partner(t, cs, false); p != nil && len(cs.buf) == 0 {
			p.matched, p.selIdx, p.selVal, p.selOK = true, pi, c.Val, true
			p.hash = mix(p.hash, t.hash)
			return SelResult{I: pick}, true
		}
		cs.buf = append(cs.buf, c.Val)
		return SelResult{I: pick}, true
	}
	if len(cs.buf) > 0 {
		v := cs.buf[0]
		cs.buf = cs.buf[1:]
		return SelResult{I: pick, V: v, OK: true}, true
	}
	if p, pi := e.partner(t, cs, true); p != nil {
		v := p.cases[pi].Val
		p.matched, p.selIdx, p.selOK = true, pi, true
		p.hash = mix(p.hash, t.hash)
		return SelResult{I: pick, V: v, OK: true}, true
	}
	if cs.closed {
		return SelResult{I: pick, V: nil, OK: false}, true
	}
	panic("vrt: ready receive case without data")
}

// ChanLen is len(ch) for an emulated channel.
func ChanLen[T any](ch <-chan T) int {
	if E == nil {
		return len(ch)
	}
	cs := E.chanLookup(chanPtr(ch))
	if cs == nil {
		return 0
	}
	return len(cs.buf)
}

var _ = reflect.TypeOf
