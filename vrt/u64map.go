package vrt

// U64Map is a plain open-addressing hash table.  The runtime's built-in maps report their accesses to the race
// detector even when the calling package is not instrumented; the scheduler's own tables are touched by every
// controlled goroutine in turn (ordered only by the hidden hand-offs), so they must not be built-in maps.
type U64Map struct {
	keys []uint64
	vals []uint64
	used []bool
	n    int
}

func (m *U64Map) Len() int {
	if m == nil {
		return 0
	}
	return m.n
}

func (m *U64Map) slot(k uint64) int {
	mask := uint64(len(m.keys) - 1)
	i := (k * 0x9e3779b97f4a7c15) >> 7 & mask
	for m.used[i] && m.keys[i] != k {
		i = (i + 1) & mask
	}
	return int(i)
}

func (m *U64Map) Get(k uint64) (uint64, bool) {
	if m.n == 0 {
		return 0, false
	}
	i := m.slot(k)
	if m.used[i] {
		return m.vals[i], true
	}
	return 0, false
}

func (m *U64Map) Put(k, v uint64) {
	if len(m.keys) == 0 || m.n*2 >= len(m.keys) {
		m.grow()
	}
	i := m.slot(k)
	if !m.used[i] {
		m.used[i] = true
		m.keys[i] = k
		m.n++
	}
	m.vals[i] = v
}

func (m *U64Map) grow() {
	ok, ov, ou := m.keys, m.vals, m.used
	size := 64
	if len(ok) > 0 {
		size = len(ok) * 2
	}
	m.keys, m.vals, m.used, m.n = make([]uint64, size), make([]uint64, size), make([]bool, size), 0
	for i, u := range ou {
		if u {
			j := m.slot(ok[i])
			m.used[j], m.keys[j], m.vals[j] = true, ok[i], ov[i]
			m.n++
		}
	}
}

// Counts is a tiny string-keyed counter table for harnesses whose callbacks run on several controlled threads (a
// built-in map would be reported to the race detector even from the uninstrumented harness).
type Counts struct {
	keys []string
	vals []int
}

func (c *Counts) Inc(key string) {
	for i, k := range c.keys {
		if k == key {
			c.vals[i]++
			return
		}
	}
	c.keys = append(c.keys, key)
	c.vals = append(c.vals, 1)
}

func (c *Counts) Get(key string) int {
	for i, k := range c.keys {
		if k == key {
			return c.vals[i]
		}
	}
	return 0
}

func (c *Counts) String() string {
	s := ""
	for i, k := range c.keys {
		s += k + "=" + string(rune('0'+c.vals[i]%10)) + " "
	}
	return s
}
