package vrt

import "sort"

// Virtual clock.  Time only moves when the ENV pseudo-thread fires the earliest
// pending timer.  ENV is the last alternative of a scheduling decision; running
// it while a thread is enabled is a deviation of cost 1 (and limited by the
// execution's EnvBudget), running it when nothing else can run is free.

type vtimer struct {
	deadline int64
	seq      int
	fire     func()
	id       int
	dead     bool
}

// TimerHandle identifies a scheduled virtual timer.
type TimerHandle struct{ t *vtimer }

// Now returns the virtual time offset in nanoseconds.
func Now() int64 {
	if E == nil {
		return offlineNow
	}
	return E.now
}

// AddTimer schedules fire to run (inside the scheduler, by ENV) at now+d.
func AddTimer(d int64, fire func()) TimerHandle {
	e := E
	if e == nil {
		panic(ErrWouldBlock{"timer outside of an execution"})
	}
	if d < 0 {
		d = 0
	}
	e.timerSeq++
	vt := &vtimer{deadline: e.now + d, seq: e.timerSeq, fire: fire, id: NewObj()}
	e.timers = append(e.timers, vt)
	Touch(vt.id, true, uint64(vt.deadline))
	return TimerHandle{vt}
}

// StopTimer removes a pending timer; reports whether it was still pending.
func StopTimer(h TimerHandle) bool {
	e := E
	if e == nil || h.t == nil {
		return false
	}
	for i, vt := range e.timers {
		if vt == h.t {
			e.timers = append(e.timers[:i], e.timers[i+1:]...)
			vt.dead = true
			Touch(vt.id, true, 0x570b)
			return true
		}
	}
	return false
}

// PendingTimers returns the number of armed virtual timers.
func PendingTimers() int {
	if E == nil {
		return 0
	}
	return len(E.timers)
}

func (e *Exec) fireEnv() {
	sort.SliceStable(e.timers, func(i, j int) bool {
		if e.timers[i].deadline != e.timers[j].deadline {
			return e.timers[i].deadline < e.timers[j].deadline
		}
		return e.timers[i].seq < e.timers[j].seq
	})
	vt := e.timers[0]
	e.timers = e.timers[1:]
	if vt.deadline > e.now {
		e.now = vt.deadline
	}
	e.EnvFired++
	e.Steps++
	saved := e.cur
	e.cur = e.envThread()
	Touch(vt.id, true, 0xf19e)
	vt.fire()
	e.cur = saved
	if e.TraceOn {
		e.Trace = append(e.Trace, "ENV fire")
	}
}

// envThread is a pseudo thread that carries ENV's happens-before hash.
func (e *Exec) envThread() *Thread {
	if e.env == nil {
		e.env = &Thread{ID: -1, done: true, hash: 0xe0e0e0}
	}
	return e.env
}

// TrySendNB performs a non-blocking send of v into the emulated channel (used by
// timers; never a scheduling point, runs inside ENV).
func TrySendNB[T any](ch chan T, v T) bool {
	e := E
	var so chan<- T = ch
	cs := e.chanOf(chanPtrS(so), cap(ch))
	if cs.closed {
		return false
	}
	if p, pi := e.partner(nil, cs, false); p != nil && len(cs.buf) == 0 {
		p.matched, p.selIdx, p.selVal, p.selOK = true, pi, v, true
		p.hash = mix(p.hash, e.cur.hash)
		Touch(cs.id, true, 0x7e1)
		return true
	}
	if len(cs.buf) < cs.cap {
		cs.buf = append(cs.buf, v)
		Touch(cs.id, true, 0x7e2)
		return true
	}
	return false
}

// DrainNB empties the emulated buffer of ch (Timer.Stop/Reset helpers).
func DrainNB[T any](ch chan T) {
	e := E
	if e == nil {
		return
	}
	var so chan<- T = ch
	cs := e.chanOf(chanPtrS(so), cap(ch))
	cs.buf = nil
}

var offlineNow int64

// SetOfflineNow sets the virtual time seen outside of executions (engine H).
func SetOfflineNow(ns int64) { offlineNow = ns }
